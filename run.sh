#!/bin/bash
# ./run.sh check <ID> quick|thorough   run one check against /repo's current working tree
# ./run.sh replay <path>               re-execute a stored violating execution
# ./run.sh build [variant]             only build the instrumented binary (variant: plain|checkptr|race)
set -u
cd "$(dirname "$0")"
VERIF=$(pwd)
export VERIF_DIR=$VERIF
export GOFLAGS=-mod=mod GOPROXY=off GOSUMDB=off GOTOOLCHAIN=local CGO_ENABLED=${CGO_ENABLED:-0}
REPO=${VERIF_REPO:-/repo}

variant_of() {
  case "$1" in
    C14|C15) echo checkptr ;;
    *) echo plain ;;
  esac
}

build() { # $1 = build dir, $2 = variant
  local dir=$1 variant=$2
  mkdir -p "$dir"
  # private module file: the library is replaced by $REPO (default /repo); mc/go.mod itself is never edited
  sed "s#=> /repo#=> $REPO#" "$VERIF/mc/go.mod" > "$dir/go.mod"
  cp "$REPO/go.sum" "$dir/go.sum"
  (cd "$VERIF/mc" && go run -modfile="$dir/go.mod" ./cmd/instr -repo "$REPO" -out "$dir") >"$dir/instr.log" 2>&1 || { cat "$dir/instr.log"; echo "INFRA-ERROR: instrumentation failed"; return 2; }
  local flags=()
  case "$variant" in
    checkptr) flags=(-gcflags=all=-d=checkptr) ;;
    race) flags=(-race) ;;
  esac
  if [ "$variant" = race ]; then export CGO_ENABLED=1; fi
  (cd "$VERIF/mc" && go build -modfile="$dir/go.mod" "${flags[@]}" -overlay "$dir/overlay.json" -o "$dir/mc" ./cmd/mc) >"$dir/build.log" 2>&1 || { cat "$dir/build.log"; echo "INFRA-ERROR: build failed"; return 2; }
  return 0
}

cmd=${1:-}
case "$cmd" in
  check)
    id=$2; tier=${3:-${VERIF_TIER:-quick}}
    variant=$(variant_of "$id")
    dir="$VERIF/.build/$id-$tier-$$"
    trap 'rm -rf "$dir"' EXIT
    build "$dir" "$variant" || exit 2
    if [ "$id" = C15 ]; then
      # freed objects are overwritten, so a dangling zero-copy string shows up as a changed value
      export GODEBUG=clobberfree=1,invalidptr=1
    fi
    if [ "$id" = C19 ]; then
      build "$dir/race" race || exit 2
      export MC_RACE_BIN="$dir/race/mc"
    fi
    MC_BUILD_DIR="$dir" "$dir/mc" check "$id" "$tier"
    exit $?
    ;;
  replay)
    path=$2
    id=$(basename "$(dirname "$path")")
    variant=$(variant_of "$id")
    dir="$VERIF/.build/replay-$$"
    trap 'rm -rf "$dir"' EXIT
    build "$dir" "$variant" || exit 2
    MC_BUILD_DIR="$dir" "$dir/mc" replay "$path"
    exit $?
    ;;
  build)
    dir="$VERIF/.build/manual"
    build "$dir" "${2:-plain}" && echo "$dir/mc"
    ;;
  *)
    echo "usage: $0 check <ID> quick|thorough | replay <path> | build [variant]"; exit 2 ;;
esac
