#!/bin/bash
# tools/cover.sh [ID...] : block coverage of the library under the quick checks (default: all but C19).
# Builds a coverage variant of the instrumented worker (instr -cover: a counter at the start of every block and
# case clause), runs the checks, and prints the library blocks no check entered, grouped by file and function.
cd "$(dirname "$0")/.."
export GOFLAGS=-mod=mod GOPROXY=off GOSUMDB=off GOTOOLCHAIN=local CGO_ENABLED=0
dir=$(mktemp -d /tmp/mccover.XXXXXX); trap 'rm -rf "$dir"' EXIT
mkdir -p "$dir/hits" "$dir/out"
sed "s#=> /repo#=> /repo#" mc/go.mod > "$dir/go.mod"; cp /repo/go.sum "$dir/go.sum"
(cd mc && go run -modfile="$dir/go.mod" ./cmd/instr -cover -repo /repo -out "$dir" >/dev/null && go build -modfile="$dir/go.mod" -overlay "$dir/overlay.json" -o "$dir/mc" ./cmd/mc) || exit 2
ids=${*:-C01 C02 C03 C04 C05 C06 C07 C08 C09 C10 C11 C12 C13 C14 C15 C16 C17 C18 C20}
for id in $ids; do
  MC_COVER_DIR="$dir/hits" VERIF_OUT="$dir/out" MC_BUILD_DIR="$dir" "$dir/mc" check "$id" quick 2>&1 | tail -1 | cut -c1-100
done
python3 - "$dir" <<'PY'
import json,sys,glob,collections
d=sys.argv[1]
pts=json.load(open(d+'/cover_points.json'))
hit=set()
for f in glob.glob(d+'/hits/hits.*'):
    for l in open(f):
        if l.strip(): hit.add(int(l))
print("blocks: %d, entered: %d (%.1f%%)"%(len(pts),len(hit),100.0*len(hit)/max(1,len(pts))))
miss=collections.defaultdict(lambda: collections.defaultdict(list))
for i,p in enumerate(pts):
    if i not in hit:
        miss[p['file'].replace('/repo/','')][p['func']].append(p['line'])
out=[]
for f in sorted(miss):
    n=sum(len(v) for v in miss[f].values())
    out.append("%s: %d blocks never entered"%(f,n))
    for fn,ls in sorted(miss[f].items(), key=lambda kv: kv[1][0]):
        out.append("    %s: lines %s"%(fn, ",".join(map(str,ls[:12]))+(" …" if len(ls)>12 else "")))
open('/verif/seeded/COVERAGE.txt','w').write("\n".join(out)+"\n")
print("\n".join(out[:400]))
PY
