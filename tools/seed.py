#!/usr/bin/env python3
"""tools/seed.py <ID> <n> [--checks C01,C07,...] [--needs "text"]

Confirms a seeded property-breaking change produced by a sub-agent under /tmp/wt/<ID>.out/<n>/
(patch.diff, demo_test.go | demo/main.go, notes.txt) in a scratch worktree of /repo:
  1. the patch applies and the library's own test suite passes with it,
  2. the demonstration fails with the patch and passes without it,
  3. which of the checks raise a VIOLATION on the patched tree (quick tier),
and stores it as /verif/seeded/<ID>-<n>/ (patch.diff, demo, meta.json).
"""
import json, os, re, shutil, subprocess, sys, tempfile

ENV = dict(os.environ, GOFLAGS="-mod=mod", GOPROXY="off", GOSUMDB="off", GOTOOLCHAIN="local")


def sh(cmd, cwd=None, env=None, timeout=1800):
    p = subprocess.run(cmd, shell=True, cwd=cwd, env=env or ENV, stdout=subprocess.PIPE, stderr=subprocess.STDOUT, text=True, timeout=timeout)
    return p.returncode, p.stdout


def main():
    pid, n = sys.argv[1], sys.argv[2]
    checks = [pid]
    needs = ""
    args = sys.argv[3:]
    while args:
        a = args.pop(0)
        if a == "--checks":
            checks = args.pop(0).split(",")
        elif a == "--needs":
            needs = args.pop(0)
    src = f"{os.environ.get('SEED_SRC', '/tmp/wt')}/{pid}.out/{n}"
    patch = os.path.join(src, "patch.diff")
    demo = None
    for cand in ("demo_test.go", "demo/main.go", "demo.go", "main.go"):
        if os.path.exists(os.path.join(src, cand)):
            demo = os.path.join(src, cand)
            break
    notes = open(os.path.join(src, "notes.txt")).read() if os.path.exists(os.path.join(src, "notes.txt")) else ""
    wt = tempfile.mkdtemp(prefix="seedwt.", dir="/tmp")
    out = tempfile.mkdtemp(prefix="seedout.", dir="/tmp")
    os.rmdir(wt)
    ran = []
    try:
        rc, o = sh(f"git -C /repo worktree add -q --detach {wt} HEAD")
        assert rc == 0, o
        # where does the demo go?
        demo_dst = None
        is_test = demo and demo.endswith("_test.go")
        if demo:
            first = open(demo).readline()
            m = re.search(r"place in:\s*([\w./-]*)", first)
            sub = (m.group(1).strip("/") if m else "") or "."
            if is_test:
                demo_dst = os.path.join(wt, sub, "zz_seed_demo_test.go")
            else:
                os.makedirs(os.path.join(wt, "zz_seed_demo"), exist_ok=True)
                demo_dst = os.path.join(wt, "zz_seed_demo", "main.go")

        def run_demo():
            shutil.copy(demo, demo_dst)
            if is_test:
                d = os.path.dirname(demo_dst)
                rc, o = sh("go test -vet=off -count=1 -run . . 2>&1 | tail -15", cwd=d)
                ok = "\nok " in "\n" + o or o.startswith("ok ")
                rc = 0 if ok and "FAIL" not in o else 1
            else:
                rc, o = sh("go run ./zz_seed_demo 2>&1 | tail -15", cwd=wt)
            os.remove(demo_dst)
            return rc, o

        res = {"property": pid, "id": f"{pid}-{os.environ.get('SEED_TAG', '')}{n}"}
        # clean tree: demo passes
        if demo:
            rc, o = run_demo()
            res["demo_on_clean_tree"] = "pass" if rc == 0 else "FAIL"
            ran.append("demo on clean tree: " + res["demo_on_clean_tree"])
            if rc != 0:
                print("demo fails on the clean tree:\n" + o)
        rc, o = sh(f"git -C {wt} apply {patch}")
        if rc != 0:
            print("patch does not apply:", o)
            return 1
        rc, o = sh("go build ./... && go test -vet=off -count=1 ./... 2>&1 | grep -v 'no test files'", cwd=wt)
        suite_ok = rc == 0 and "FAIL" not in o
        res["suite_with_change"] = "pass" if suite_ok else "FAIL"
        ran.append("go test -vet=off -count=1 ./... with the change: " + res["suite_with_change"])
        if not suite_ok:
            print("suite fails with the change:\n" + o[-1500:])
        if demo:
            rc, o = run_demo()
            res["demo_with_change"] = "fail (as intended)" if rc != 0 else "PASSES (not a demonstration)"
            ran.append("demo with the change: " + res["demo_with_change"])
        detected = {}
        for c in checks:
            env = dict(ENV, VERIF_REPO=wt, VERIF_OUT=out)
            rc, o = sh(f"./run.sh check {c} quick", cwd="/verif", env=env, timeout=3600)
            viol = [l.strip() for l in o.splitlines() if l.strip().startswith("entry=")]
            detected[c] = {"exit": rc, "violations": len([l for l in o.splitlines() if l.startswith("VIOLATION")]), "first": viol[:2]}
            ran.append(f"./run.sh check {c} quick on the changed tree: exit {rc}")
            print(c, "exit", rc, viol[:2])
        res["checks"] = detected
        res["caught_by"] = sorted(c for c, d in detected.items() if d["exit"] == 1)
        res["needs_to_manifest"] = needs or notes.strip().split("\n")[0][:400]
        res["notes_from_author"] = notes.strip()
        res["what_was_run"] = ran
        ok = res.get("suite_with_change") == "pass" and (not demo or (res.get("demo_on_clean_tree") == "pass" and res.get("demo_with_change", "").startswith("fail")))
        res["confirmed"] = ok
        print(json.dumps({k: res[k] for k in ("id", "confirmed", "suite_with_change", "demo_on_clean_tree", "demo_with_change", "caught_by") if k in res}))
        if ok:
            dst = f"/verif/seeded/{pid}-{os.environ.get('SEED_TAG', '')}{n}"
            os.makedirs(dst, exist_ok=True)
            shutil.copy(patch, os.path.join(dst, "patch.diff"))
            if demo:
                shutil.copy(demo, os.path.join(dst, os.path.basename(demo) if is_test else "demo_main.go"))
            json.dump(res, open(os.path.join(dst, "meta.json"), "w"), indent=1)
        return 0 if ok else 1
    finally:
        sh(f"git -C /repo worktree remove --force {wt}")
        shutil.rmtree(wt, ignore_errors=True)
        shutil.rmtree(out, ignore_errors=True)


sys.exit(main())
