#!/bin/bash
# tools/mut.sh <patch-file | revert:<commit>> <ID> [<ID>...]
# Applies a property-breaking change to /repo's working tree, runs the quick checks, restores /repo.
# Prints one line per check: "<ID> exit=<code> violations=<n>".
set -u
cd "$(dirname "$0")/.."
spec=$1; shift
if [ -n "$(git -C /repo status --porcelain)" ]; then echo "refusing: /repo is not clean"; exit 2; fi
restore() { git -C /repo checkout -- . ; git -C /repo clean -fdq -- . >/dev/null 2>&1; }
trap restore EXIT
case "$spec" in
  revert:*) c=${spec#revert:}; git -C /repo diff "$c^" "$c" | git -C /repo apply -R || { echo "cannot reverse-apply $c"; exit 2; } ;;
  *) git -C /repo apply "$spec" || { echo "cannot apply $spec"; exit 2; } ;;
esac
if [ "${MUT_TESTS:-0}" = 1 ]; then
  (cd /repo && GOFLAGS=-mod=mod GOPROXY=off GOSUMDB=off go test -vet=off -count=1 ./... >/tmp/mut_tests.$$ 2>&1) && echo "suite: pass" || { echo "suite: FAIL"; tail -5 /tmp/mut_tests.$$; }
  rm -f /tmp/mut_tests.$$
fi
for id in "$@"; do
  out=$(./run.sh check "$id" "${MUT_TIER:-quick}" 2>&1); code=$?
  n=$(echo "$out" | grep -c '^VIOLATION')
  echo "$id exit=$code violations=$n"
  echo "$out" | grep -E "entry=|^INFRA" | head -${MUT_SHOW:-3}
done
