#!/bin/bash
# tools/mut.sh <patch-file | revert:<commit>> <ID> [<ID>...]
# Applies a property-breaking change to a scratch worktree of /repo (outside /repo and /verif), runs the
# checks against it (VERIF_REPO), removes the worktree. Evidence/replays of these runs go to a scratch dir.
# Prints per check: "<ID> exit=<code> violations=<n>" and the first violation classes.
# MUT_TESTS=1 also runs the repository's own test suite on the changed tree; MUT_TIER selects the tier.
set -u
cd "$(dirname "$0")/.."
spec=$1; shift
wt=$(mktemp -d /tmp/mutwt.XXXXXX)
out=$(mktemp -d /tmp/mutout.XXXXXX)
cleanup() { git -C /repo worktree remove --force "$wt" >/dev/null 2>&1; rm -rf "$wt" "$out"; }
trap cleanup EXIT
git -C /repo worktree add -q --detach "$wt" HEAD || exit 2
case "$spec" in
  revert:*) c=${spec#revert:}; git -C /repo diff "$c^" "$c" | git -C "$wt" apply -R || { echo "cannot reverse-apply $c"; exit 2; } ;;
  *) git -C "$wt" apply "$(readlink -f "$spec")" || { echo "cannot apply $spec"; exit 2; } ;;
esac
if [ "${MUT_TESTS:-0}" = 1 ]; then
  (cd "$wt" && GOFLAGS=-mod=mod GOPROXY=off GOSUMDB=off go test -vet=off -count=1 ./... >"$out/tests.log" 2>&1) && echo "suite: pass" || { echo "suite: FAIL"; grep -v "^ok\|no test files" "$out/tests.log" | tail -5; }
fi
for id in "$@"; do
  res=$(VERIF_REPO="$wt" VERIF_OUT="$out" ./run.sh check "$id" "${MUT_TIER:-quick}" 2>&1); code=$?
  n=$(echo "$res" | grep -c '^VIOLATION')
  echo "$id exit=$code violations=$n"
  echo "$res" | grep -E "entry=|^INFRA" | head -${MUT_SHOW:-3}
done
