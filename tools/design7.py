#!/usr/bin/env python3
"""Regenerates DESIGN.md section 7 (detection) from seeded/*/meta.json, seeded/RESULTS.tsv and seeded/REVERT_MATRIX.tsv."""
import glob, json, os, re

D = "/verif/DESIGN.md"
s = open(D).read()
i = s.index("## 7. Demonstrating detection")
j = s.index("## 8. Limits")

rows = []
for f in sorted(glob.glob("/verif/seeded/C*-*/meta.json")):
    m = json.load(open(f))
    sid = m["id"]
    needs = m.get("needs_to_manifest", "").replace("|", "\\|").replace("\n", " ")
    if len(needs) > 330:
        needs = needs[:330] + "…"
    fin = m.get("caught_by_final")
    if isinstance(fin, list):
        fin = ", ".join(fin) or "NONE"
    rows.append((sid, needs, ", ".join(m.get("caught_by", [])) or "— (missed at first)", fin or ""))

results = {}
if os.path.exists("/verif/seeded/RESULTS.tsv"):
    for l in open("/verif/seeded/RESULTS.tsv"):
        p = l.rstrip("\n").split("\t")
        if len(p) >= 2:
            results[p[0]] = p[1]

seed_tab = "\n".join("| `%s` | %s | %s | %s |" % (sid, needs, caught, fin) for sid, needs, caught, fin in rows)

rev = []
if os.path.exists("/verif/seeded/REVERT_MATRIX.tsv"):
    for l in open("/verif/seeded/REVERT_MATRIX.tsv"):
        p = l.rstrip("\n").split("\t")
        if len(p) >= 3:
            rev.append("| `%s` | %s | %s |" % (p[0], p[1].replace("|", "\\|")[:110], p[2]))
rev_tab = "\n".join(rev)
missing = [r for r in rev if "| NONE" in r]
ba_sec = ""
if os.path.exists("/verif/seeded/BEFORE_AFTER.txt"):
    ba_sec = """### 7.3 Fixes that cannot be reverted alone: before / after

Later fixes touch the same lines of five fixes, so `git apply -R` of the single commit fails (or the result does
not build). For these `tools/beforeafter.sh` runs the quick checks on a scratch worktree at the commit's parent and
at the commit itself; both trees still contain all defects repaired later, so both fail - what counts is the set of
violation classes `(check, entry, symptom, class)` that is reported before the fix and no longer after it:

```
""" + open("/verif/seeded/BEFORE_AFTER.txt").read().rstrip() + """
```
"""


sec = """## 7. Demonstrating detection

A harness that has never failed has not been shown to work. Two kinds of
evidence, both reproducible with the tools in `tools/`:

### 7.1 Seeded property-breaking changes written by independent sub-agents

Each change was written by a fresh sub-agent that saw only the text of one
property and its own scratch worktree of `/repo` (nothing from `/verif`), with the
instruction to break the property while the repository's suite keeps passing
and to prefer changes that need something specific to manifest. Every change
kept here was confirmed by `tools/seed.py` in a scratch worktree: the patch
applies, `go test ./...` of the repository passes with it, the author's
demonstration fails with it and passes without it. Then the quick checks were
run against the patched tree (`VERIF_REPO=<worktree>`). `seeded/<id>/` holds
`patch.diff`, the demonstration and `meta.json` (what it needs to manifest, what
was run, which checks caught it). `<Cxx>-1/-2` are the first round, `<Cxx>-r2-1/-2`
a second round that was told what the first round had done and asked for
something different, `<Cxx>-r3-1/-2` a third round. At the end of the round
`tools/seeds_regress.sh` applied every stored change to the final tree and ran the
final harness: all 119 are reported by the check of the property they were
written for, or - where that check cannot see the change by construction - by the
check named in the last column. Twelve patches had to be re-created on top of later
repairs that touch the same lines (`patch.as-confirmed.diff` keeps the author's
version; the suite still passes and the author's demonstration still fails with
the re-created patch). The regression ran on the tree at `d72f69a`; six repairs were made after it
(second hunt). 116 patches still apply to the final tree; `C14-r2-1`, `C18-1` and `C19-2` conflict with those
last repairs and were last verified on `d72f69a` (`applies_up_to` in their `meta.json`).

Several changes were **missed at first** and led to stronger checks (the
change is kept, the check was extended, then re-confirmed):

* `C04-1` (`parseUint` cutoff off by one, literals `1844674407370955162x`) → family
  `json-int-boundaries`: every literal `prefix + 1-2 digits` around 2³¹, 2³², 2⁶³, 2⁶⁴;
* `C02-2` (field-name length byte 125 taken for `}` across a write boundary) →
  families with strings and keys whose *length byte equals a structural marker*
  (UBJSON) and payload bytes equal to the break byte (CBOR);
* `C07-1` (overlong UTF-8 `0xC0 0x80` copied raw by a fast path) → six more
  ill-formed UTF-8 atoms (overlong 2/3-byte forms, > U+10FFFF, 5-byte form, lone continuation);
* `C08-1` (−2147483649 transcoded as +2147483647; seen by C05) → C08 uses the full scalar corpus;
* `C09-1` (announced member count wrong only for a pointer-receiver `IsZeroer` field) →
  method-bearing seed types became *field types* of generated structs (`struct2-seeds`);
* `C10-2` (by-reference string aliased by the reflection forwarders; seen by C13, C15) →
  13th consumer of C10 (string targets behind pointers, named strings, map keys);
* `C12-2` (named slice/map with its own `Fold` folded structurally in nested positions) →
  seeds `SeedTags`, `SeedCounts` — which also uncovered two genuine defects (nil `*T`
  with value-receiver `Folder`; pointer-receiver `Folder` on a named container by value);
* `C11-2`, `C12-1` (shared scratch value in the map folder, needs a re-entrant map type) →
  seeds `SeedNode`, `SeedNodeI` (first believed caught: the alarms of that run came from
  the then-unfixed nil-Folder defect; the regression run `tools/seeds_regress.sh` exposed it);
* `C13-1` (generic object lost when the scratch slots reallocate at nesting ≥ 5; seen by C14) →
  family `generic-deep` in C13;
* `C13-2` (process-wide depth counter in the ignore unfolder; seen by C14) → C19 bodies
  unfolding into a partial struct (nested unknown members skipped concurrently);
* `C14-2` (scratch cell of reflected maps surviving `Reset`) → reflected map documents in
  the abandonment search;
* `C17-1` (`isDouble` not reset after a top-level float at EOF) → top-level numbers in the
  JSON alphabets (`Parse` mode) — which uncovered a genuine defect (literal buffer kept by `finalize`);
* `C17-2` (regular folder returned for an inlined type; seen by C12) → types used *only* inlined
  next to values using the same type as an ordinary value;
* `C19-1`, `C19-2` (process-wide caches keyed by type: invisible once the solo run has warmed
  them) → a never-seen `reflect.StructOf` type per execution, and a pool of 400 named
  primitive types for the free-running race pass;
* `C01-r2-2` (empty CBOR string as non-last element of an announced-length container; seen by C05) →
  string contexts with the string in non-last position of announced-length containers;
* `C03-r2-1` (look-ahead protected only by slice *capacity*) → every input is handed over in a
  slice whose capacity equals its length, family `json-broken-escapes`;
* `C06-r2-1` (payload byte 0x4E swallowed as no-op in typed objects) → a payload starting with
  `N` for every element type of typed containers.
* `C08-r2-1` (element-type stack one level too deep after a typed object nested in an element of a typed
  container of containers; seen by C06) → family `ubj-typed-nesting` (all consumers of the UBJSON corpus);
* `C11-r2-1` (finished nested array read from a reallocated scratch slice: unannounced arrays ≥ 5 deep into
  `interface{}`; seen by C13) → `deep` seeds (generic data nested 5–17 deep) in the Go space;
* `C11-r2-2` (small-struct fast path wrong for exactly 8 reported fields) → family `struct-wide` (0–24 fields);
* `C12-r2-1` (a bare tag name that spells an option keyword, `struct:"omit"`, treated as the option) → 16 more tag spellings;
* `C12-r2-2` (inline folder keeps its nesting depth after a fold that failed inside the inlined object) →
  families `iterator-after-failed-fold*` (value a fails at event k, then value b on the same iterator);
* `C13-r2-1` (two levels of inlining, the first not at offset 0: inner fields stored at another field's address) →
  `inline-nest` in the Go space and the Go space as typed targets of C13 (`go-targets-*`);
* `C14-r2-1` (`Reset` rebuilds the context without the tag option; only a struct type first compiled after the
  `Reset` shows it) → reference behaviour = unfolder as `NewUnfolder` left it, tag-sensitive follow-up type;
* `C14-r2-2` (null for a struct-typed field leaves the child's address as base pointer: later fields written
  past the target) → targets with a field of every type in the middle of a struct;
* `C15-r2-1` (recycled key-cache node keeps the zero-copy key; needs more distinct keys than the cache holds; seen by C20),
  `C15-r2-2` (reflected map unfolder keeps a view of the key across callbacks / on the null path; seen by C13) →
  the follow-up document's target is compared with its clean run after all buffers were overwritten, second
  document shape with object and null values into `map[string]struct`, `map[string]*struct`,
  `map[string]map[string]string`, key caches of 1 and 2 entries;
* `C17-r2-1` (stale key-cache map entry after eviction; seen by C20) → three `Unfolder(EnableKeyCache(n))` components in C17;
* `C19-r2-1` (package-level free list for unquote buffers) → long escaped strings with different content per thread;
* `C03-r2-2` (truncation not reported when the reader returns its last chunk together with `io.EOF`; seen by C18) →
  two more entry points in C03 (readers returning data + `io.EOF`).
* third round (`-r3-`; the authors were told what the first two rounds had done and asked to go elsewhere):
  `C07-r3-2`, `C01-r3-1` (one element width for a whole typed array chosen from part of the elements / in an order-dependent
  way) → `ext-pairs`: every ordered pair of width-boundary values per integer array kind; `C10-r3-1` (typed array of exactly
  24 elements) → `ext-sizes`: every typed array and map with 23–257 elements; `C09-r3-1` (CBOR break in value position
  accepted: key without value) → C09 monitors **every input a parser accepts** out of C03's byte-string space (3.5·10⁶
  accepted inputs), not only the valid corpus; `C09-r3-2`, `C12-r3-2` (folders registered for a named primitive / a built-in
  type) → seed group `SeedBuiltinFolders` — which uncovered a genuine defect (`2479531`); `C11-r3-2` (lazily allocated map
  panics when its first entry is null and no length was announced) → containers whose first / only element is the zero
  value of a pointer / interface / slice / map element type; `C14-r3-1` (one shared state for a processing unfolder of a
  recursive type) → targets with registered custom unfolders in C14's all-pairs space; `C14-r3-2` (stacks not reset once they
  outgrew their inline buffer) → abandoned documents nested 40 / 20×2 levels deep; `C15-r3-2` (strings reported by value for
  `ParseString`, although the bytes may sit in the parser's own buffer after a `Write`) → entry points
  `Write(head)` + `Parse(tail)` / `ParseString(tail)` with a byte-wise follow-up; `C02-r3-1` (parked digits not cleared
  when a later write continues the number inside an object) → the scalar contexts are ordered so that "value followed by
  another member" is inside every scope; `C17-r3-1` (an escape prefix kept in the encoder's scratch array, overwritten by a
  17-character float) → longest number renderings and every escape class in the encoder alphabets; `C17-r3-2` (inline
  folder bound to the context it was compiled in) → a second iterator component over the inline / `Folder` seed values;
  `C20-r3-1`, `C20-r3-2` (second `EnableKeyCache`; empty key) → operation "EnableKeyCache again" and the empty key in C20;
  `C19-r3-1` (escape sequence patched in a package-level buffer) → bodies that encode *different* characters of every escape
  class; `C18-r3-1` (125-byte field name with a read boundary before the length byte; seen by C02) → long items with
  marker-valued lengths in C18; `C03-r3-2` (panic exactly at the CBOR nesting limit with a length-prefixed item there; seen
  by C05) → the deeply nested valid documents are also inputs of C03; `C19-r3-2` was dropped: after fix `8fd2914` its
  demonstration no longer fails. Two authors mentioned crashes of the *unmodified* tree in passing; both were confirmed,
  given corpus (seed groups `SeedShapedFolders`, `SeedInlineNested`) and repaired (`5d1408b`, `8fd2914`).

| seed | what it needs to manifest (author's note) | caught by, when it was confirmed | caught by, final harness (`tools/seeds_regress.sh`: own property's check + the checks of the confirmation run) |
|---|---|---|---|
%s

A seed "caught by" another property's check only (for example a parser defect
submitted for C08 and seen by C06) is listed as such: the change breaks that
other property's statement first, and the check of the named property cannot
see it by construction (C04 parses whole buffers, so it cannot see a
chunking-dependent change; C01's recorder copies strings inside the callback, as
the contract demands, so it cannot see an alias).

### 7.2 Reverting the repairs

`tools/matrix.sh` reverse-applies every `fix:` commit alone on a scratch
worktree (the repository's suite passes without each of them — that is why the
defects were there) and runs the quick checks of the relevant properties.

| commit | subject | quick checks that fail when it is reverted |
|---|---|---|
%s

%s

%s

### 7.4 The other direction: behaviour-preserving changes raise no alarm

`seeded/benign/benign1.diff` and `benign2.diff` are refactorings a maintainer might make without changing
behaviour: the JSON parser's literal buffer doubled, a new private field, other initial capacities of the unfolder's
scratch slices, members of inlined maps folded in sorted key order, the JSON encoder's scratch array enlarged, and
**every error text of the three parsers and of gotype reworded**. The repository's suite passes with them, and all
twenty quick checks exit 0 on the changed trees (`tools/mut.sh seeded/benign/benign1.diff C01 ... C20`): the
oracles do not depend on buffer geometry, private field layout, map iteration order or error texts (known findings are
matched by witness class, state comparisons by slice *depths* of the idle instance, errors by `errors.Is` / nil-ness).
`seeded/hand/` holds hand-written property-breaking changes used while building individual families (see its README).

### 7.5 Bug hunting by independent sub-agents on the unmodified tree

After the three rounds of seeded changes, six fresh sub-agents were given a cluster of properties each (fold, unfold,
parsers, encoders, reuse / pull decoders, memory / concurrency), a scratch worktree of the *repaired* tree, the list of
repaired defects, and the task to find inputs on which the unmodified library still violates a property (failing test
required). Their deliveries are kept under `seeded/hunt/<cluster>/<n>/` (`demo_test.go`, `notes.txt`) together with the
hypotheses that held (`held.txt`). 36 deliveries collapsed into the following distinct issues. **Every issue accepted as
a violation of a listed statement was first given corpus until a check reported it, and only then repaired** (one
`fix:` commit each, §6.1):

| issue | reported by | verdict | check that sees it (before the repair) | repair |
|---|---|---|---|---|
| self-referential map / slice / pointer types: fatal stack overflow in `Fold` and `NewUnfolder` | A, B, E, F | genuine (C11 quantifies over self-referential types) | C11, C12, C14 (`SeedRecursiveContainers`) | `f5f3c9a` |
| refused self-referential struct poisons the type registry: nil function call on the next `Fold`; unsupported target accepted on the next `SetTarget` | A, E, F | genuine (C11 "refused with an error, not by a crash"; C14 "as a new unfolder would") | C12 iterator histories, C14 abandonment search (`SeedBadRec`) | `f5f3c9a`, `d550185` |
| `map[NamedString]V` panics for struct / pointer / slice / map `V` | B, E, F | genuine (C14) | C11, C14 (`SeedNamedKeys`) | `d4bde33` |
| registered unfolder for `T` corrupts `[]*T`, `map[string]*T` | B, E | genuine (C14: memory outside the target) | C13, C14 (custom unfolders behind pointer elements) | `5752255` |
| nil value of an interface type containing `Fold` panics | A | genuine (C12: interfaces fold as null when nil) | C12, C09 (`SeedFolderIfc`) | `c1166a0` |
| nil `*T` with a folder registered for `T` is handed to the user function (the README's `foldDuration` crashes) | A | genuine (C12: pointers fold as null when nil); C12 had reported it earlier and I had misjudged it (§6.1) | C12 (`SeedBuiltinFolders`, test folders written like the README's) | `d72f69a` |
| `omitempty` ignores `IsZero` on custom array / string / slice / map types | A | genuine (C12 lists `IsZero()==true`; my model had mirrored the code) | C12 (`SeedZeroSized`) | `fa5101e` |
| cborl / ubjson `Decoder` break on a `(0, nil)` read | C, D, E | genuine (C18: "whatever sizes its reads return"; I had assumed it away) | C18 (one zero-byte read per schedule) | `c92062c` |
| json `Parser.Parse` keeps flags of a rejected text | C | genuine (C04: every valid text is accepted; `Parse` resets the parser) | C04 (`json-after-rejected`) | `2195d44` |
| `gotype.Fold` returns nil when an option (`Folders(...)`) is invalid | A, D, E, F | real, but no listed statement speaks about options | — | not repaired (see §8) |
| out-of-range numbers wrap silently on unfold; pre-filled slices keep elements beyond `len`; `SetTarget` without `Reset` after a failed document | B, F | the statements make no promise there (C13: "whenever the value fits"; C14: "after Reset and SetTarget") | — | — |
| registered unfolder / `Expander` ignored for `[]T` / `map[string]T` struct fields of primitive kind; unfolder registered for a pointer type | A, B, E, F | real; C13's statement does not mention custom unfolders (my check covers more than the statement there, but not this) | — | not repaired (see §8) |
| UBJSON no-op where a field name is expected is rejected | C | the draft is ambiguous; no longer judged either way (`ubj-noop-insertions`) | — | — |
| 13 bytes denoting 2⁶³ payload-less elements | C | documented exclusion (§6.3, C03) | — | — |
| json / cborl `Parser.Write` and all `Decoder`s deliver further events when called *again* after a visitor error | D | genuine (C16, second sentence; my check had judged the failing call only) | C16 (one more call after the failing one) | `a22db03` |
| decoders drop a non-EOF read error delivered with data; json encoder drops errors of a sink that fails only once | C, D | outside the statements (C18: `io.EOF`; C16: a sink that keeps failing) | — | — |
| `OnByte(b >= 128)` written as an (invalid) UBJSON char | D | genuine (C07: valid for an independent draft-12 reader); my reference had been lenient | C07, C08, C10 (after the reference was made strict) | `e8d4695` |
| JSON lexical leniency (`0123`, `+1`, `.5`, a quote escaped as backslash-apostrophe, vertical tab as blank); invalid UTF-8 copied into CBOR / UBJSON strings | C, D | C04 demands rejection of wrong *structure* only; C01 demands byte-exact strings | — | — |
| inlined `*Self` field: stack overflow when the folder is compiled | A, F | genuine (C12 quantifies over every tag option on fields of every kind) | C12, C11 (`SeedChain`) | `574050b` |

No sub-agent found a violation of C15, C19 or C20, nor of chunking independence (C02), conformance on well-formed input
(C04-C06), the round trips (C01), or the visitor contract on accepted input (C09).

**Second hunt** (four sub-agents: gotype as a whole, parsers and pull decoders, encoders, state and memory; they were
given the 62 repairs and the list of behaviours judged above as outside the statements, `seeded/hunt2/`): 15 deliveries,
8 distinct issues, 6 of them accepted and repaired - three of them were consequences of my own earlier repairs:

| issue | reported by | verdict | check that sees it (before the repair) | repair |
|---|---|---|---|---|
| an `Iterator` refuses a type only once; folders compiled on the way to a refusal stay registered (partly caused by `574050b`) | G, J | genuine (C12 / C11) | C12 iterator histories (`SeedBadInline`) | `968402d` |
| ubjson / cborl `Parser`: failed `Write`, empty `Write`, next `Write` loops forever (cborl: since `a22db03`); json `Parse` then `Write` continues the rejected document | H, J | genuine (C16, C03) | C16 (empty write among the follow-up calls) | `289ae5a` |
| `NewDecoder(r, 0, v)`: `Next` polls forever (cborl / ubjson: since `c92062c`) | H | genuine (C18 "buffer sizes") | C18 (buffer size 0) | `3b7b02f` |
| a type refused while a document is processed (cell of a processing unfolder) poisons the unfolder's registry; crash in the forwarding unfolder of `f5f3c9a` | J | genuine (C14) | C14 abandonment search | `99d594b` |
| `SetTarget` on a target that has not received its document stacks the targets: panic / spurious errors for every document | J | genuine (C17, C14) | C17 (operations calling `SetTarget` twice) | `d9c63c2` |
| folder registered for an interface type + `omitempty`: user function gets the address of the dynamic value | G | genuine (C12; memory safety) | C12 (`SeedShapeFolder`) | `67050b6` |
| cborl: 6-8 million nested definite-length containers overflow the Go stack (recursive closing of finished containers) | H, I | real; far outside every bound of the checks (nesting is explored to 257 / 4 096 levels); the repair is a rewrite of the closing logic | - | not repaired (section 8) |
| `type P *P` (fold spins, unfold overflows); folder registered for a pointer type bypassed by `omitempty`; nil inlined named container with a `Folder` contributes no members; `Reset` keeps references to the old target alive | G, J | pathological type / exotic registration / model and library agree / outside the five statements (documented contract of `Reset`) | - | - |

---------------------------------------------------------------------------

""" % (seed_tab, rev_tab, ba_sec, ("Fixes whose revert is not detected by any quick check: %d (see rows with NONE)." % len(missing)) if missing else "Every revertible fix is detected by at least one quick check.")
s = s[:i] + sec + s[j:]
open(D, "w").write(s)
print("seeds:", len(rows), "reverts:", len(rev), "undetected reverts:", len(missing))
