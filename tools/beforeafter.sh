#!/bin/bash
# tools/beforeafter.sh <commit> <ID> [<ID>...] : for a fix: commit that cannot be reverse-applied alone (later fixes touch
# the same lines) - runs the quick checks on a scratch worktree at <commit>^ and at <commit> and prints the violation
# classes (entry, symptom, class) that are reported before the fix and no longer after it.
set -u
cd "$(dirname "$0")/.."
c=$1; shift
run() { # <rev> -> prints "ID entry symptom class" lines
  local wt out
  wt=$(mktemp -d /tmp/bawt.XXXXXX); out=$(mktemp -d /tmp/baout.XXXXXX)
  git -C /repo worktree add -q --detach "$wt" "$1" || exit 2
  for id in "$@"; do
    [ "$id" = "$1" ] && continue
    VERIF_REPO="$wt" VERIF_OUT="$out" ./run.sh check "$id" quick 2>&1 | grep -E "^  entry=|^INFRA" | sed -E "s/ count=[0-9]+//; s/^ */$id /"
  done
  git -C /repo worktree remove --force "$wt" >/dev/null 2>&1; rm -rf "$wt" "$out"
}
before=$(run "$c^" "$@" | sort -u)
after=$(run "$c" "$@" | sort -u)
echo "== $c $(git -C /repo log -1 --format=%s $c)"
echo "violation classes before the fix: $(echo "$before" | grep -c .)  after: $(echo "$after" | grep -c .)"
echo "-- reported before, gone after:"
comm -23 <(echo "$before") <(echo "$after") | head -${BA_SHOW:-12}
