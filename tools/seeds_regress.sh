#!/bin/bash
# tools/seeds_regress.sh [seed-dir...] : applies every seeded change under /verif/seeded/<id>/patch.diff to a scratch
# worktree and runs the quick check of the property it was written for and, if that passes, the checks that caught it when it was
# confirmed; writes seeded/RESULTS.tsv (seed, checks that fail now, first violation of the seed's own property check) and
# records the result as "caught_by_final" in the seed's meta.json.
cd "$(dirname "$0")/.."
touch seeded/RESULTS.tsv
dirs=${*:-seeded/C*-*/}
for d in $dirs; do
  d=${d%/}; id=$(basename "$d"); prop=${id%%-*}
  others=$(python3 -c "import json;print(' '.join(c for c in json.load(open('$d/meta.json')).get('caught_by',[]) if c!='$prop'))")
  res=$(MUT_SHOW=1 tools/mut.sh "$d/patch.diff" $prop 2>&1)
  if ! echo "$res" | grep -q "exit=1" && [ -n "$others" ]; then
    # the property's own check does not see it (for most of these by construction): the checks that caught it when it was confirmed
    res="$res
$(MUT_SHOW=1 tools/mut.sh "$d/patch.diff" $others 2>&1)"
  fi
  failing=$(echo "$res" | awk '/exit=1/{print $1}' | tr '\n' ' ')
  bad=$(echo "$res" | awk '/exit=2/{print $1}' | tr '\n' ' ')
  first=$(echo "$res" | grep -A1 "^$prop exit=1" | grep "entry=" | head -1 | sed 's/^ *//' | cut -c1-160)
  echo "$res" | grep -q "cannot apply" && failing="(patch does not apply)"
  python3 - "$d/meta.json" "$failing" <<'PY'
import json,sys
p,f=sys.argv[1],sys.argv[2]
m=json.load(open(p)); m['caught_by_final']=f.split() if not f.startswith('(') else f; json.dump(m,open(p,'w'),indent=1)
PY
  grep -v "^$id	" seeded/RESULTS.tsv > seeded/RESULTS.tsv.tmp
  echo -e "$id\t${failing:-NONE}${bad:+ (could not run: $bad)}\t$first" | tee -a seeded/RESULTS.tsv.tmp
  mv seeded/RESULTS.tsv.tmp seeded/RESULTS.tsv
done
sort -o seeded/RESULTS.tsv seeded/RESULTS.tsv
