#!/bin/bash
# tools/seeds_regress.sh : applies every seeded change under /verif/seeded/<id>-<n>/patch.diff to a scratch worktree
# and runs the quick check of the property it breaks; writes seeded/RESULTS.tsv (seed, property check, exit, violations).
cd "$(dirname "$0")/.."
: > seeded/RESULTS.tsv.tmp
for d in seeded/C*-*/; do
  id=$(basename "$d"); prop=${id%-*}
  res=$(MUT_SHOW=1 tools/mut.sh "$d/patch.diff" "$prop" 2>&1)
  line=$(echo "$res" | grep "^$prop exit=")
  first=$(echo "$res" | grep "entry=" | head -1 | sed 's/^ *//' | cut -c1-160)
  echo -e "$id\t$line\t$first" | tee -a seeded/RESULTS.tsv.tmp
done
mv seeded/RESULTS.tsv.tmp seeded/RESULTS.tsv
