#!/bin/bash
# tools/matrix.sh : for every fix: commit of /repo, reverse-apply it on a scratch worktree and run the quick
# checks of the properties it is relevant for; writes /verif/seeded/REVERT_MATRIX.tsv (commit, subject, checks that fail).
cd "$(dirname "$0")/.."
out=seeded/REVERT_MATRIX.tsv
mkdir -p seeded
: > "$out.tmp"
git -C /repo log --reverse --format='%h %s' --grep='^fix:' | while read -r c subj; do
  files=$(git -C /repo show --stat --format= "$c" | awk '{print $1}' | grep '/' | cut -d/ -f1 | sort -u | tr '\n' ' ')
  case "$files" in
    *gotype*) checks="C09 C11 C12 C13 C14 C15 C17 C19 C20" ;;
    *) checks="C01 C02 C03 C04 C05 C06 C07 C08 C09 C10 C16 C17 C18" ;;
  esac
  res=$(MUT_SHOW=0 tools/mut.sh "revert:$c" $checks 2>&1)
  if echo "$res" | grep -q "cannot reverse-apply"; then
    echo -e "$c\t$subj\t(later fixes touch the same lines: cannot be reverted alone)" >> "$out.tmp"; continue
  fi
  failing=$(echo "$res" | awk '/exit=1/{print $1}' | tr '\n' ' ')
  infra=$(echo "$res" | awk '/exit=2/{print $1}' | tr '\n' ' ')
  echo -e "$c\t$subj\t${failing:-NONE}${infra:+ (does not build/infra: $infra)}" >> "$out.tmp"
  echo "$c -> ${failing:-NONE} $infra"
done
mv "$out.tmp" "$out"
