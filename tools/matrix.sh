#!/bin/bash
# tools/matrix.sh [commit...] : for every fix: commit of /repo (or only the given ones), reverse-apply it alone on a
# scratch worktree and run the quick checks of the properties it is relevant for; writes/updates
# /verif/seeded/REVERT_MATRIX.tsv (commit, subject, checks that fail; checks that could not run are listed with the reason).
cd "$(dirname "$0")/.."
out=seeded/REVERT_MATRIX.tsv
mkdir -p seeded
touch "$out"
only=" $* "
git -C /repo log --reverse --format='%h %s' --grep='^fix:' | while read -r c subj; do
  if [ $# -gt 0 ] && [[ "$only" != *" $c "* ]]; then continue; fi
  files=$(git -C /repo show --stat --format= "$c" | awk '{print $1}' | grep '/' | cut -d/ -f1 | sort -u | tr '\n' ' ')
  case "$files" in
    *gotype*) checks="C09 C11 C12 C13 C14 C15 C17 C19 C20" ;;
    *) checks="C01 C02 C03 C04 C05 C06 C07 C08 C09 C10 C16 C17 C18" ;;
  esac
  res=$(MUT_SHOW=1 tools/mut.sh "revert:$c" $checks 2>&1)
  if echo "$res" | grep -q "cannot reverse-apply"; then
    line="$c\t$subj\t(later fixes touch the same lines: cannot be reverted alone)"
  else
    failing=$(echo "$res" | awk '/exit=1/{print $1}' | tr '\n' ' ')
    infra=$(echo "$res" | awk '/exit=2/{print $1}' | tr '\n' ' ')
    line="$c\t$subj\t${failing:-NONE}${infra:+ (could not run: $infra)}"
    [ -n "$infra" ] && echo "$res" | grep -A1 "exit=2" | head -4
  fi
  grep -v "^$c	" "$out" > "$out.tmp"; echo -e "$line" >> "$out.tmp"; mv "$out.tmp" "$out"
  echo "$c -> ${failing:-NONE} ${infra:+| could not run: $infra}"
done
# keep the rows in commit order
git -C /repo log --reverse --format='%h' --grep='^fix:' | while read -r c; do grep "^$c	" "$out"; done > "$out.tmp"; mv "$out.tmp" "$out"
