#!/usr/bin/env python3
"""Regenerates MANIFEST.json from the table below (keeps it valid at all times)."""
import json, sys

CLAIMED = {
 "C01": dict(level="exploration", technique="bounded exhaustive enumeration of event streams (stateless choice-vector DFS) executed on the real encoder+parser, value-model oracle",
   text="Every well-formed event stream of a bounded language (all trees <=N nodes, every scalar kind x width-boundary value x 7 contexts, all strings of <=k atoms, length sweep, all 29 extended events) x 3 codecs x JSON option sets is encoded and re-parsed by the real code and compared as values. Exhaustive inside the bound; the defects of this property live at specific small inputs (width boundaries, escapes, empty keys), which is exactly what an exhaustive small-scope search cannot miss.",
   note="small-scope hypothesis (sizes/alphabets in evidence.bounds); value model and normalisers in mc/model are trusted", ref="DESIGN.md §5 C01"),
 "C04": dict(level="exploration", technique="exhaustive enumeration of four JSON sub-languages on the real parser against an independent RFC 8259 reference decoder",
   text="All token sequences <=N over a 9-symbol structure alphabet (valid and invalid), all string literals of <=k atoms over 21 atoms, ~1600 number literals x 10 contexts, whitespace sweep, deep nesting; parser events compared with refjson (math/big). Exhaustive inside the bound.",
   note="refjson is trusted as the RFC 8259 reference (unit-tested against encoding/json)", ref="DESIGN.md §5 C04"),
 "C05": dict(level="exploration", technique="exhaustive enumeration of the CBOR grammar (every argument width) on the real parser against an independent RFC 7049 reference decoder",
   text="All items <=N data items incl. non-minimal widths and indefinite containers, every boundary integer in every width, floats, strings with every length width, every unsupported feature at 8 positions; events compared with refcbor. Exhaustive inside the bound.",
   note="refcbor is trusted as the RFC 7049 reference", ref="DESIGN.md §5 C05"),
 "C06": dict(level="exploration", technique="exhaustive enumeration of the UBJSON grammar (all header forms, typed containers of containers) on the real parser against an independent draft-12 reference decoder",
   text="All values <=N nodes over plain/counted/typed containers with up to 15 element types, every scalar marker and length marker, typed containers followed by siblings; events compared with refubj. Exhaustive inside the bound.",
   note="refubj is trusted as the draft-12 reference; no-ops inside counted/typed containers and objects are excluded (draft unclear)", ref="DESIGN.md §5 C06"),
}
CLAIMED["C02"] = dict(level="model_checking", technique="stateless model checking of the chunk schedule: every subset of cut positions (deviation-bounded beyond a length bound) x entry points, on the real parsers, against the whole-buffer parse",
   text="Each document of the three wire languages (and its single-edit invalid neighbours) is fed to the real parser under every chunk schedule of the bounded space (all 2^(n-1) cut sets for short documents, <=k cuts beyond, single bytes, strides, empty writes) through Write sequences (fresh and reused parser) and ParseReader (EOF separately / with the last chunk); events and verdict must equal the whole-buffer parse. The schedule space is enumerated exhaustively; states = (document, cut-prefix) decision nodes.",
   note="documents longer than the full-cut bound only get bounded cut sets; the whole-buffer parse is the reference (its own correctness is C04-C06)", ref="DESIGN.md §5 C02")
CLAIMED["C07"] = dict(level="exploration", technique="bounded exhaustive enumeration of event streams on the real encoders, output judged by independent reference decoders",
   text="The C01 stream language is written by the real encoders and read back by refjson/refcbor/refubj: exactly one complete value equal to the stream's value; JSON byte-level rules (UTF-8, control characters, HTML escaping, radix point, non-finite floats) checked on every output.",
   note="reference decoders are the trusted format definitions", ref="DESIGN.md §5 C07")
CLAIMED["C03"] = dict(level="exploration", technique="exhaustive enumeration of byte strings (all 256-ary strings <=2, reduced-alphabet strings <=L, argument sweep, single-edit neighbourhoods) x entry points x chunkings on the real parsers/decoders with a deterministic step budget and allocation meter",
   text="Every byte string of the bounded spaces is run through Parse, ParseString, ParseReader, Write, the byte-slice and the reader pull decoders under whole / single-cut / single-byte chunkings; the oracle is no panic, a deterministic budget of instrumented steps (hang detection without wall clock), an allocation bound measured with runtime/metrics, termination of the Next loop, and truncated input (reference verdict) reported as an error other than io.EOF.",
   note="bytes outside the reduced alphabets beyond length 2 are represented by default-branch symbols; step budget counts instrumented function entries/loop iterations; UBJSON documents whose counted payload-less typed containers denote more events than the step budget are excluded from the budget oracle (amplification is inherent in the format)", ref="DESIGN.md §5 C03")
REASONS = {}

def main():
    na = []
    checks = []
    for i in range(1, 21):
        pid = "C%02d" % i
        c = CLAIMED.get(pid)
        if c is None:
            na.append({"property_id": pid, "reason": REASONS.get(pid, "check under construction in this round; not claimed until it passes on the unchanged tree")})
            continue
        checks.append({
            "property_id": pid,
            "quick_cmd": "./run.sh check %s quick" % pid,
            "thorough_cmd": "./run.sh check %s thorough" % pid,
            "evidence_file": "/verif/evidence/%s.json" % pid,
            "replay_cmd_template": "./run.sh replay {path}",
            "engine": "mc",
            "level_claimed": {"category": c["level"], "text": c["text"], "design_ref": c["ref"]},
            "level_note": c["note"],
            "technique": c["technique"],
        })
    m = {
        "version": 1,
        "setup_cmd": "./setup.sh",
        "hooks": {
            "guard": "verif",
            "enable": "no source hooks are committed to /repo; every check regenerates a `go build -overlay` from /repo's working tree (mc/cmd/instr) that inserts verifrt.Step() at every function entry and loop body of the library packages; the package verifrt exists only in that overlay",
            "baseline_off_cmd": "cd /repo && GOFLAGS=-mod=mod go test -vet=off -count=1 -timeout 25m ./...",
            "source_commits": [],
            "add_only": True,
        },
        "engines": [{"name": "mc", "path": "mc", "serves_properties": sorted(CLAIMED),
                     "kind_free_text": "hand-written bounded exhaustive explorer (stateless choice-vector DFS with deviation bounds, explicit-state BFS over instance histories, cooperative scheduler) running the real implementation; reference decoders and models in Go"}],
        "checks": checks,
        "not_applicable": na,
        "notes": "see DESIGN.md; known findings and fixed defects are listed in known_findings.json",
    }
    json.dump(m, open("/verif/MANIFEST.json", "w"), indent=1)
    print("claimed:", len(checks), "unclaimed:", len(na))

main()
