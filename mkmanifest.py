#!/usr/bin/env python3
"""Regenerates MANIFEST.json from the table below (keeps it valid at all times)."""
import json, sys

CLAIMED = {
 "C01": dict(level="exploration", technique="bounded exhaustive enumeration of event streams (stateless choice-vector DFS) executed on the real encoder+parser, value-model oracle",
   text="Every well-formed event stream of a bounded language (all trees <=N nodes, every scalar kind x width-boundary value x 7 contexts, all strings of <=k atoms, length sweep, all 29 extended events) x 3 codecs x JSON option sets is encoded and re-parsed by the real code and compared as values. Exhaustive inside the bound; the defects of this property live at specific small inputs (width boundaries, escapes, empty keys), which is exactly what an exhaustive small-scope search cannot miss.",
   note="small-scope hypothesis (sizes/alphabets in evidence.bounds); value model and normalisers in mc/model are trusted", ref="DESIGN.md §5 C01"),
 "C04": dict(level="exploration", technique="exhaustive enumeration of four JSON sub-languages on the real parser against an independent RFC 8259 reference decoder",
   text="All token sequences <=N over a 9-symbol structure alphabet (valid and invalid), all string literals of <=k atoms over 21 atoms, ~1600 number literals x 10 contexts, whitespace sweep, deep nesting; parser events compared with refjson (math/big). Exhaustive inside the bound.",
   note="refjson is trusted as the RFC 8259 reference (unit-tested against encoding/json)", ref="DESIGN.md §5 C04"),
 "C05": dict(level="exploration", technique="exhaustive enumeration of the CBOR grammar (every argument width) on the real parser against an independent RFC 7049 reference decoder",
   text="All items <=N data items incl. non-minimal widths and indefinite containers, every boundary integer in every width, floats, strings with every length width, every unsupported feature at 8 positions; events compared with refcbor. Exhaustive inside the bound.",
   note="refcbor is trusted as the RFC 7049 reference", ref="DESIGN.md §5 C05"),
 "C06": dict(level="exploration", technique="exhaustive enumeration of the UBJSON grammar (all header forms, typed containers of containers) on the real parser against an independent draft-12 reference decoder",
   text="All values <=N nodes over plain/counted/typed containers with up to 15 element types, every scalar marker and length marker, typed containers followed by siblings; events compared with refubj. Exhaustive inside the bound.",
   note="refubj is trusted as the draft-12 reference; no-ops inside counted/typed containers and objects are excluded (draft unclear)", ref="DESIGN.md §5 C06"),
}
CLAIMED["C02"] = dict(level="model_checking", technique="stateless model checking of the chunk schedule: every subset of cut positions (deviation-bounded beyond a length bound) x entry points, on the real parsers, against the whole-buffer parse",
   text="Each document of the three wire languages (and its single-edit invalid neighbours) is fed to the real parser under every chunk schedule of the bounded space (all 2^(n-1) cut sets for short documents, <=k cuts beyond, single bytes, strides, empty writes) through Write sequences (fresh and reused parser) and ParseReader (EOF separately / with the last chunk); events and verdict must equal the whole-buffer parse. The schedule space is enumerated exhaustively; states = (document, cut-prefix) decision nodes.",
   note="documents longer than the full-cut bound only get bounded cut sets; the whole-buffer parse is the reference (its own correctness is C04-C06)", ref="DESIGN.md §5 C02")
CLAIMED["C07"] = dict(level="exploration", technique="bounded exhaustive enumeration of event streams on the real encoders, output judged by independent reference decoders",
   text="The C01 stream language is written by the real encoders and read back by refjson/refcbor/refubj: exactly one complete value equal to the stream's value; JSON byte-level rules (UTF-8, control characters, HTML escaping, radix point, non-finite floats) checked on every output.",
   note="reference decoders are the trusted format definitions", ref="DESIGN.md §5 C07")
CLAIMED["C03"] = dict(level="exploration", technique="exhaustive enumeration of byte strings (all 256-ary strings <=2, reduced-alphabet strings <=L, argument sweep, single-edit neighbourhoods) x entry points x chunkings on the real parsers/decoders with a deterministic step budget and allocation meter",
   text="Every byte string of the bounded spaces is run through Parse, ParseString, ParseReader, Write, the byte-slice and the reader pull decoders under whole / single-cut / single-byte chunkings; the oracle is no panic, a deterministic budget of instrumented steps (hang detection without wall clock), an allocation bound measured with runtime/metrics, termination of the Next loop, and truncated input (reference verdict) reported as an error other than io.EOF.",
   note="bytes outside the reduced alphabets beyond length 2 are represented by default-branch symbols; step budget counts instrumented function entries/loop iterations; UBJSON documents whose counted payload-less typed containers denote more events than the step budget are excluded from the budget oracle (amplification is inherent in the format)", ref="DESIGN.md §5 C03")
CLAIMED["C08"] = dict(level="exploration", technique="exhaustive enumeration of valid source documents x 9 codec pairs x entry points x chunkings on the real parser->encoder connection; reference decoders on both sides + direct-vs-replay differential",
   text="Valid documents of each wire language (incl. foreign shapes) and streams of 2-3 container documents are transcoded by connecting the real parser directly to the real encoder for all 9 pairs, through ParseReader and the Decoder.Next loop under whole/single-cut/single-byte chunkings; the target is judged by the target format's reference decoder against the source's reference value, and the bytes are compared with a replay of the copied event recording.",
   note="reference decoders trusted; JSON targets are expected to refuse non-finite floats; out-of-range JSON literals may be rejected (C04)", ref="DESIGN.md §5 C08")
CLAIMED["C09"] = dict(level="exploration", technique="contract monitor behind every producer over the exhaustive document, Go type x value and extended-event spaces",
   text="The Visitor-contract monitor (balance, nesting, key/value alternation, announced length, announced element type, single top-level value) checks the event stream of the three parsers on every accepted document of the C04-C06 languages (Parse and byte-wise Write), of Fold on every (type, value) of the C12 space and of the extended-event adapters.",
   note="bounds of the underlying languages; monitor rules in mc/model/contract.go", ref="DESIGN.md §5 C09")
CLAIMED["C10"] = dict(level="exploration", technique="exhaustive pairing of every extended event with its basic-event expansion over positions x follow-ups x 12 consumers on the real code; value, follow-up bytes and private-state fingerprint compared",
   text="Run A delivers the extended call, run B its expansion to a second fresh consumer; decoded values (reference decoders), bytes written after the event, the reflective fingerprint of the consumer's private state, unfolded Go values and recorded events must agree.",
   note="fingerprint abstraction as in C17; map-derived members unordered", ref="DESIGN.md §5 C10")
CLAIMED["C11"] = dict(level="exploration", technique="exhaustive enumeration of Go types (reflect.StructOf over field-type x tag alphabets + compiled seeds) x values x 4 routes on the real Fold/encoders/parsers/Unfolder",
   text="Every (type, value) of the bounded space is folded and unfolded into a fresh variable directly and through each codec; the documented-mapping model of the result must equal that of the original, untransferred fields must stay zero, unsupported types must be refused by error. Two known findings (uint64 above MaxInt64 through UBJSON) are listed in known_findings.json.",
   note="types limited to reflect.StructOf + seeds; comparison through the value model for interface-typed parts", ref="DESIGN.md §5 C11")
CLAIMED["C12"] = dict(level="exploration", technique="exhaustive enumeration of Go types x values on the real Fold against an executable model of the documented tag rules",
   text="Every (type, value) of the bounded space, folded by value and by pointer, must emit exactly the value computed by model.RefFold (the tag rules written down independently), or an error where the model refuses the type.",
   note="the model (mc/model/reffold.go) is the trusted reading of the documentation; ambiguous corners accepted both ways and counted", ref="DESIGN.md §5 C12")
CLAIMED["C16"] = dict(level="fault_enumeration", technique="fault enumeration: every write index k of every stream / every event index k of every document, Go value and adapter run, on the real code",
   text="Dry run counts the W writes (E events); for every k the k-th (and every later) write fails, or the visitor fails at event k; encoders must report an error no later than the last event; producers must return exactly the injected error and deliver nothing after it.",
   note="persistent writer failure as stated by the property; Fold on a fixed value set here (type space in C09/C12)", ref="DESIGN.md §5 C16")
CLAIMED["C17"] = dict(level="model_checking", technique="explicit-state breadth-first search over instance histories with reflective private-state fingerprints; successors rebuilt by replaying the history on a fresh real instance",
   text="For 14 components (3 encoders, 3 parsers, 6 pull decoders, iterator, unfolder) all histories up to the unpruned depth and fingerprint-pruned BFS beyond; on every transition the probe document's output equals the output on a new instance and the idle part of the private state equals a new instance's.",
   note="fingerprint abstraction (skipped storage is write-before-read) validated by the unpruned depth; histories contain only accepted documents", ref="DESIGN.md §5 C17")
CLAIMED["C18"] = dict(level="model_checking", technique="stateless model checking of the reader schedule: every Read answer size chosen by the explorer (all compositions for short streams, deviation-bounded beyond), EOF style, buffer sizes, on the real pull decoders",
   text="Streams of k values and all their truncations x {byte-slice, reader} decoders x buffer sizes x every read-size sequence x EOF together with / after the last bytes; one reference value per successful Next, then io.EOF; truncation => error other than io.EOF.",
   note="zero-byte reads not generated (outside the statement)", ref="DESIGN.md §5 C18")
CLAIMED["C13"] = dict(level="exploration", technique="exhaustive enumeration of (event stream, target type) pairs on the real Unfolder against a reference unfolder model",
   text="Every tree <=N nodes (strings/keys by value and by reference) into generic targets; numeric cross product of every event kind x boundary value x every numeric target width in 6 shapes; objects of <=3 members over a 12-shape alphabet into struct targets (reflect.StructOf) with fields for any subset of the members, sentinel and '-' fields; expected results from model.RefUnfold, compared with model.SameGo.",
   note="targets start zero plus sentinels; where the statement makes no promise (value does not fit, shape mismatch) only no-crash applies", ref="DESIGN.md §5 C13")
CLAIMED["C14"] = dict(level="model_checking", technique="exhaustive enumeration of ALL (stream, target type) pairs + hostile announced lengths under a checkptr build with canaries and an allocation meter; explicit-state search over abandonment histories (cut after every event k, Reset, SetTarget, follow-up) with reflective fingerprints",
   text="Every tree <=N nodes x ~70 target types regardless of compatibility; every container's announced length replaced by true+1, 2^16 .. 2^63-1; every event method must return nil or an error (no panic/fatal/step overrun), canaries intact, allocation proportional to events received, unsupported types refused at SetTarget; BFS over histories of abandoned documents: after Reset+SetTarget the follow-up document yields exactly a new unfolder's result and the stacks are idle.",
   note="memory safety observed via canaries/checkptr/value comparison, not proved", ref="DESIGN.md §5 C14")
CLAIMED["C15"] = dict(level="model_checking", technique="stateless model checking of chunk schedule x GC position (deviation-bounded) on the real parser->unfolder pipelines with buffer scribbling, clobberfree and checkptr",
   text="Documents with strings/keys of 1..200 bytes x chunk schedules x 4 entry points x 5 targets x follow-up documents x one GC at every event boundary (thorough: also at instrumented points); the stored result must be unchanged after the harness overwrote every buffer, after the follow-up document reused the internal buffers and after a forced GC with clobberfree, and equal to a clean run; Fold->encoder output is GC-independent.",
   note="an alias is only visible if the aliased bytes are overwritten: the harness overwrites everything it owns and forces buffer reuse", ref="DESIGN.md §5 C15")
CLAIMED["C20"] = dict(level="model_checking", technique="explicit-state breadth-first search over key-cache states (reflective fingerprint) for every capacity, on the real unfolder with by-reference keys whose bytes are overwritten after each callback",
   text="Capacities 0-4 (thorough 0-6) x 5 targets x documents of 1-3 keys over a 5-key alphabet; reachable cache states explored to a fixpoint/depth bound; on every transition all results equal those of an unfolder without cache and earlier results are intact; an LRU reference labels hit/miss/eviction/re-insertion coverage.",
   note="5-key alphabet, documents of at most 3 keys", ref="DESIGN.md §5 C20")
CLAIMED["C19"] = dict(level="model_checking", technique="cooperative scheduler owning every function entry / loop iteration of the instrumented library; all schedules up to a preemption bound of 2-3 goroutines on own instances over shared types/data; separate free-running -race pass",
   text="Every schedule with at most B preemptions (quick 1, thorough 2; both start orders; thorough also 3 threads with B=1) of body pairs over shared Go types (first use in both / cached in one) is executed on the real code; every thread must return exactly its solo result, no panic, no step-budget overrun. Data races are delegated to a separate free-running pass of the same bodies in a -race build (happens-before analysis of those runs, not enumeration).",
   note="sequential consistency at function/loop granularity; race clause decided by the race detector on free runs", ref="DESIGN.md §5 C19")
REASONS = {}

def main():
    na = []
    checks = []
    for i in range(1, 21):
        pid = "C%02d" % i
        c = CLAIMED.get(pid)
        if c is None:
            na.append({"property_id": pid, "reason": REASONS.get(pid, "check under construction in this round; not claimed until it passes on the unchanged tree")})
            continue
        checks.append({
            "property_id": pid,
            "quick_cmd": "./run.sh check %s quick" % pid,
            "thorough_cmd": "./run.sh check %s thorough" % pid,
            "evidence_file": "/verif/evidence/%s.json" % pid,
            "replay_cmd_template": "./run.sh replay {path}",
            "engine": "mc",
            "level_claimed": {"category": c["level"], "text": c["text"], "design_ref": c["ref"]},
            "level_note": c["note"],
            "technique": c["technique"],
        })
    m = {
        "version": 1,
        "setup_cmd": "./setup.sh",
        "hooks": {
            "guard": "verif",
            "enable": "no source hooks are committed to /repo; every check regenerates a `go build -overlay` from /repo's working tree (mc/cmd/instr) that inserts verifrt.Step() at every function entry and loop body of the library packages; the package verifrt exists only in that overlay",
            "baseline_off_cmd": "cd /repo && GOFLAGS=-mod=mod go test -vet=off -count=1 -timeout 25m ./...",
            "source_commits": [],
            "add_only": True,
        },
        "engines": [{"name": "mc", "path": "mc", "serves_properties": sorted(CLAIMED),
                     "kind_free_text": "hand-written bounded exhaustive explorer (stateless choice-vector DFS with deviation bounds, explicit-state BFS over instance histories, cooperative scheduler) running the real implementation; reference decoders and models in Go"}],
        "checks": checks,
        "not_applicable": na,
        "notes": "see DESIGN.md; known findings and fixed defects are listed in known_findings.json",
    }
    json.dump(m, open("/verif/MANIFEST.json", "w"), indent=1)
    print("claimed:", len(checks), "unclaimed:", len(na))

main()
