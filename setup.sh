#!/bin/bash
# Offline setup: warm the Go build cache (plain, checkptr and race variants of the instrumented worker).
set -u
cd "$(dirname "$0")"
export GOFLAGS=-mod=mod GOPROXY=off GOSUMDB=off GOTOOLCHAIN=local
./run.sh build plain >/dev/null || exit 1
./run.sh build checkptr >/dev/null || exit 1
CGO_ENABLED=1 ./run.sh build race >/dev/null || echo "setup: race variant could not be built (C19 race pass will report it)"
rm -rf .build/manual
echo "setup ok"
