package props

import (
	"fmt"
	"reflect"

	structform "github.com/elastic/go-structform"
	"github.com/elastic/go-structform/gotype"

	"verif/mc/engine"
	"verif/mc/gen"
	"verif/mc/model"
)

func init() {
	register(func() {
		engine.Register(&engine.Check{
			ID: "C14", Level: "model_checking", Risky: true,
			Rule:        "ALL pairs (well-formed event stream, target type) regardless of compatibility: every tree of <=N nodes over a leaf alphabet (int, string by reference, null, bool, float, uint64 max, ...) with keys by value/by reference x ~60 target types (every field type plain, one- and two-field structs with tag options, pointers, maps, slices, interfaces, compiled seeds incl. unsupported kinds); hostile announced lengths (true+1, 2^16, 2^24, 2^31, 2^62, 2^63-1) at every container; abandonment histories: the document is cut after event k for EVERY k, then Reset + SetTarget(fresh) + a follow-up document, explored as explicit-state search over <=2 abandoned documents with a reflective fingerprint of the unfolder's stacks; built with -gcflags=all=-d=checkptr; oracle: every event method returns nil or an error (no panic / fatal / step-budget overrun), canary bytes around the target are intact, allocation <= 1MiB + 1KiB x events received, unsupported types refused when the target is set, and after Reset+SetTarget the follow-up document yields exactly what a new unfolder yields with the same idle fingerprint; a case = (stream, target) or (abandonment history, follow-up); non-trivial = container stream",
			Assumptions: []string{"out-of-bounds writes are observed through canaries next to the target, checkptr, the final value comparison and GC crashes; a stray write that hits none of them is not seen", "allocation is measured with runtime/metrics on a single goroutine"},
			Families:    c14Families,
			Bounds: func(tier string) map[string]interface{} {
				return map[string]interface{}{"max_tree_nodes": tierPick(tier, 4, 5), "abandoned_documents": 2}
			},
			Require: []string{"pairs_run", "mismatch_errors_seen", "hostile_lengths_run", "+transitions"},
		})
	})
}

type c14Target struct {
	name  string
	t     reflect.Type
	uopts []gotype.UnfoldOption // registered custom unfolders (the model's verdict on the type does not apply then)
}

// targets with custom unfolders: a recursive type filled by a processing unfolder (its temporary cell holds further values
// of the type itself), an Expander, a registered primitive unfolder, and containers of them
// a processing unfolder whose temporary cell has a type that must be refused - at document time, not by SetTarget
type c14PoisonElem struct {
	P   *c14PoisonList
	Bad [3]int
}
type c14PoisonList []c14PoisonElem
type c14Poisoned struct{ X int }

type c14Tree struct {
	Name string
	Kids []c14Tree
}
type c14TreeCell struct {
	Name string    `struct:"name"`
	Kids []c14Tree `struct:"kids"`
	A    []c14Tree `struct:"a"`
	B    *c14Tree  `struct:"b"`
}

func c14CustomTargets() []c14Target {
	opts := []gotype.UnfoldOption{gotype.Unfolders(
		func(to *c14Tree) (interface{}, func(*c14Tree, interface{}) error) {
			return &c14TreeCell{}, func(to *c14Tree, c interface{}) error {
				cell := c.(*c14TreeCell)
				to.Name = cell.Name
				to.Kids = append(append(cell.Kids, cell.A...))
				if cell.B != nil {
					to.Kids = append(to.Kids, *cell.B)
				}
				return nil
			}
		},
		func(to *C13Plain) gotype.UnfoldState { return &c13State{log: &to.Log} },
		func(to *C13Prim, v int64) error { to.V, to.Set = v, true; return nil },
	)}
	mk := func(v interface{}) c14Target {
		return c14Target{name: fmt.Sprintf("custom:%T", v), t: reflect.TypeOf(v), uopts: opts}
	}
	return []c14Target{mk(c14Tree{}), mk([]c14Tree{}), mk(map[string]c14Tree{}), mk(&c14Tree{}), mk(struct {
		A c14Tree `struct:"a"`
		B int     `struct:"b"`
	}{}), mk(C13Rec{}), mk([]C13Rec{}), mk(C13Plain{}), mk(map[string]C13Plain{}), mk(C13Prim{}), mk([]C13Prim{}), mk([]*C13Prim{}), mk(map[string]*C13Prim{}), mk([]*c14Tree{}), mk(map[string]*C13Plain{}), mk(struct {
		L []*C13Prim `struct:"l"`
		Z int        `struct:"z"`
	}{}), mk(struct {
		A C13Rec  `struct:"a"`
		B C13Prim `struct:"b"`
	}{})}
}

func c14Targets(tier string) []c14Target {
	var out []c14Target
	for _, ft := range gen.FieldTypes(1) {
		out = append(out, c14Target{name: ft.Name, t: ft.T})
	}
	add := func(spec gen.StructSpec) { out = append(out, c14Target{name: spec.String(), t: spec.Build()}) }
	ft := gen.FieldTypes(0)
	pick := func(name string) gen.FieldType {
		for _, f := range gen.FieldTypes(1) {
			if f.Name == name {
				return f
			}
		}
		panic(name)
	}
	for _, f := range ft {
		add(gen.StructSpec{Fields: []gen.FieldType{f}, Tags: []string{"a"}})
	}
	add(gen.StructSpec{Fields: []gen.FieldType{pick("int"), pick("string")}, Tags: []string{"a", "b"}})
	add(gen.StructSpec{Fields: []gen.FieldType{pick("[]int"), pick("map[string]string")}, Tags: []string{"a", "b"}})
	add(gen.StructSpec{Fields: []gen.FieldType{pick("Inner"), pick("*Inner")}, Tags: []string{",inline", "b"}})
	add(gen.StructSpec{Fields: []gen.FieldType{pick("interface{}"), pick("[]Inner")}, Tags: []string{"a", "b"}})
	add(gen.StructSpec{Fields: []gen.FieldType{pick("map[string]Inner"), pick("*string")}, Tags: []string{"a,omitempty", "b"}})
	add(gen.StructSpec{Fields: []gen.FieldType{pick("map[string]int"), pick("int")}, Tags: []string{",inline", "a"}})
	// a field of every type in the middle of a struct (non-zero offset) followed by another known field
	for _, f := range ft {
		add(gen.StructSpec{Fields: []gen.FieldType{pick("int64"), f, pick("int")}, Tags: []string{"zz", "b", "a"}})
	}
	add(gen.StructSpec{Fields: []gen.FieldType{pick("string"), pick("Inner"), pick("string")}, Tags: []string{"zz", ",inline", "a"}})
	for _, v := range []interface{}{SeedMyInt(0), SeedMyMap(nil), SeedMySlice(nil), SeedRec{}, SeedRecSlice{}, SeedWithUnexported{}, SeedNamedFields{}, SeedBad1{}, SeedBad3{}, SeedBad4{}, SeedArrField{}, SeedMyArr{}, map[int]string(nil), [2]int{}, SeedHolder{}, SeedTreeMap(nil), SeedTreeSlice(nil), SeedPtrList(nil), SeedMapOfSlices(nil), SeedHasTrees{}, map[SeedKey]int(nil), map[SeedKey]seedEmbedded(nil), map[SeedKey]*int(nil), map[SeedKey][]string(nil), SeedKeyed{}} {
		out = append(out, c14Target{name: fmt.Sprintf("%T", v), t: reflect.TypeOf(v)})
	}
	return out
}

var canaryByte = byte(0xC5)

// guarded allocates struct{C1 [64]byte; T T; C2 [64]byte} and returns a pointer to T plus a canary checker.
func guarded(t reflect.Type) (reflect.Value, func() bool) {
	ct := reflect.ArrayOf(64, reflect.TypeOf(byte(0)))
	st := reflect.StructOf([]reflect.StructField{{Name: "C1", Type: ct}, {Name: "T", Type: t}, {Name: "C2", Type: ct}})
	v := reflect.New(st).Elem()
	for _, f := range []int{0, 2} {
		for i := 0; i < 64; i++ {
			v.Field(f).Index(i).SetUint(uint64(canaryByte))
		}
	}
	return v.Field(1).Addr(), func() bool {
		for _, f := range []int{0, 2} {
			for i := 0; i < 64; i++ {
				if byte(v.Field(f).Index(i).Uint()) != canaryByte {
					return false
				}
			}
		}
		return true
	}
}

func c14Leaves(n int) []model.Event {
	all := []model.Event{model.SInt(model.KInt8, 1), model.StrRef("s"), model.Nil(), model.Bool(true), model.F64(0x3ff8000000000000),
		model.UInt(model.KUint64, 1<<64-1), model.SInt(model.KInt64, -1<<63), model.Str(""), model.F32(0x7fc00000)}
	if n > len(all) {
		n = len(all)
	}
	return all[:n]
}

func c14Families(tier string) []engine.Family {
	targets := append(c14Targets(tier), c14CustomTargets()...)
	leaves := c14Leaves(5)
	maxNodes := tierPick(tier, 4, 5)
	hostile := []int{1, 1 << 16, 1 << 24, 1 << 31, 1 << 62, 1<<63 - 1}
	kcLeaves := []model.Event{model.SInt(model.KInt8, -1), model.Str("a"), model.StrRef("r"), model.Nil(), model.Bool(true), model.F64(0x3fe0000000000000),
		model.UInt(model.KUint64, 1<<64-1), model.SInt(model.KInt, -70000), model.F32(0x3dcccccd), model.UInt(model.KByte, 200),
		model.SInt(model.KInt16, 300), model.SInt(model.KInt32, -1<<31), model.SInt(model.KInt64, 1<<62), model.UInt(model.KUint8, 255), model.UInt(model.KUint16, 1), model.UInt(model.KUint32, 1<<32-1), model.UInt(model.KUint, 7)}
	kcTargets := append([]c14Target{}, targets...)
	{
		tStr := reflect.TypeOf("")
		scalarish := append(append(append([]gen.FieldType{}, gen.ScalarTypes...), gen.FieldType{Name: "interface{}", T: reflect.TypeOf((*interface{})(nil)).Elem()}), gen.NamedScalarTypes()...)
		for _, b := range scalarish {
			kcTargets = append(kcTargets, c14Target{name: b.Name, t: b.T}, c14Target{name: "[]" + b.Name, t: reflect.SliceOf(b.T)}, c14Target{name: "map[string]" + b.Name, t: reflect.MapOf(tStr, b.T)},
				c14Target{name: "*" + b.Name, t: reflect.PtrTo(b.T)}, c14Target{name: "[2]" + b.Name, t: reflect.ArrayOf(2, b.T)}, c14Target{name: "[][]" + b.Name, t: reflect.SliceOf(reflect.SliceOf(b.T))},
				c14Target{name: "map[string][]" + b.Name, t: reflect.MapOf(tStr, reflect.SliceOf(b.T))}, c14Target{name: "map[string]map[string]" + b.Name, t: reflect.MapOf(tStr, reflect.MapOf(tStr, b.T))},
				c14Target{name: "struct{A []" + b.Name + "; B map[string]" + b.Name + "}", t: reflect.StructOf([]reflect.StructField{{Name: "A", Type: reflect.SliceOf(b.T)}, {Name: "B", Type: reflect.MapOf(tStr, b.T)}})})
		}
	}

	// one (stream, target) run with all oracles; returns the result dump
	prefill := false
	runPair := func(x *engine.Exec, tg c14Target, evs []model.Event, class string, fam string) {
		desc := fmt.Sprintf("%s <- %s", tg.name, model.EventsString(evs))
		if prefill {
			desc = "prefilled " + desc
		}
		x.Case(desc, len(evs) > 1)
		x.Sample(func() interface{} {
			return map[string]interface{}{"target": tg.name, "events": model.EventsString(evs)}
		})
		ptr, canariesOK := guarded(tg.t)
		if prefill {
			// the target already holds a value (non-nil pointers, slices longer than the document's arrays, maps with entries)
			if vals := gen.Values(tg.t, 0); len(vals) > 1 && ptr.Elem().CanSet() {
				ptr.Elem().Set(vals[len(vals)-1])
			}
		}
		usup, why := model.UnfoldSupported(tg.t)
		if tg.uopts != nil {
			usup, why = true, ""
		}
		stage := "SetTarget"
		delivered := 0
		x.Journal("gotype.Unfolder", class, desc)
		a0 := allocBytes()
		res := guard(int64(200000+600*streamSize(evs)), func() error {
			u, err := gotype.NewUnfolder(ptr.Interface(), tg.uopts...)
			if err != nil {
				return err
			}
			stage = "events"
			v := structform.EnsureExtVisitor(u)
			for _, e := range evs {
				if err := model.DriveOne(v, e); err != nil {
					return err
				}
				delivered++
			}
			return nil
		})
		alloc := allocBytes() - a0
		x.Count("pairs_run", 1)
		wit := func() interface{} {
			return map[string]interface{}{"target": tg.name, "events": model.EventsString(evs), "stage": stage, "events_delivered": delivered, "err": errStr(res.Err), "allocated_bytes": alloc, "unfold_model": why}
		}
		if res.Bad() {
			x.Violation("gotype.Unfolder", res.Symptom(), class, "stage "+stage+": "+res.Panic+res.Where, wit())
			return
		}
		if !canariesOK() {
			x.Violation("gotype.Unfolder", "memory-corruption", class, "canary bytes around the target were overwritten", wit())
			return
		}
		if limit := uint64(1<<20 + 1024*(delivered+1)); alloc > limit {
			x.Violation("gotype.Unfolder", "alloc", class, fmt.Sprintf("%d bytes allocated for %d events received", alloc, delivered), wit())
			return
		}
		if !usup {
			if stage != "SetTarget" || res.Err == nil {
				x.Violation("gotype.Unfolder", "unsupported-accepted", class, "unsupported target type ("+why+") was not refused when the target was set", wit())
				return
			}
			x.Count("unsupported_refused", 1)
			return
		}
		if stage == "SetTarget" && res.Err != nil {
			x.Violation("gotype.Unfolder", "supported-refused", class, errStr(res.Err), wit())
			return
		}
		if res.Err != nil {
			x.Count("mismatch_errors_seen", 1)
			x.Outcome("error:" + res.Err.Error())
		} else {
			x.Outcome("ok")
		}
	}

	fams := []engine.Family{
		{Name: "all-pairs", Arity: []int{len(targets), len(leaves) + 4}, Body: func(x *engine.Exec) {
			tg := targets[x.Choose(len(targets))]
			t := gen.Tree(x, &gen.TreeOpts{MaxNodes: maxNodes, Leaves: leaves, Keys: []string{"a", "b"}})
			evs := t.Events(nil)
			if x.Bool() {
				evs = byRefVariant(evs, true)
			}
			runPair(x, tg, evs, "pair:"+kindClass(tg.t), "all-pairs")
		}},
		{Name: "all-pairs-wide-alphabet", Arity: []int{len(targets), 9 + 4}, Body: func(x *engine.Exec) {
			// thorough only: the 9-leaf alphabet (adds int64 min, empty string by value, uint64 max, NaN float32) at 4 nodes; the
			// 5-node trees of the thorough tier stay on the 5-leaf alphabet (both together did not finish in 40 minutes)
			if tier != "thorough" {
				return
			}
			tg := targets[x.Choose(len(targets))]
			t := gen.Tree(x, &gen.TreeOpts{MaxNodes: 4, Leaves: c14Leaves(9), Keys: []string{"a", "b"}})
			evs := t.Events(nil)
			if x.Bool() {
				evs = byRefVariant(evs, true)
			}
			runPair(x, tg, evs, "pair:"+kindClass(tg.t), "all-pairs-wide-alphabet")
		}},
		{Name: "hostile-lengths", Arity: []int{len(targets)}, Body: func(x *engine.Exec) {
			tg := targets[x.Choose(len(targets))]
			t := gen.Tree(x, &gen.TreeOpts{MaxNodes: 3, Leaves: leaves[:3], Keys: []string{"a"}})
			evs := t.Events(nil)
			// replace the announced length of one container
			var starts []int
			for i, e := range evs {
				if e.K == model.KArrStart || e.K == model.KObjStart {
					starts = append(starts, i)
				}
			}
			if len(starts) == 0 {
				return
			}
			si := starts[x.Choose(len(starts))]
			h := hostile[x.Choose(len(hostile))]
			evs = append([]model.Event{}, evs...)
			if h == 1 {
				n := evs[si].Len
				if n < 0 {
					n = 0
				}
				evs[si].Len = n + 1
			} else {
				evs[si].Len = h
			}
			if x.Bool() {
				evs[si].BT = structform.Int8Type // an element type hint that the elements do not honour
			}
			x.Count("hostile_lengths_run", 1)
			runPair(x, tg, evs, fmt.Sprintf("hostile-length:%s", kindClass(tg.t)), "hostile-lengths")
		}},
		{Name: "kind-cross", Arity: []int{len(kcTargets), len(kcLeaves)}, Body: func(x *engine.Exec) {
			// every event kind at the value position of every unfolder state: each target type (all primitive kinds, built-in and
			// named, and their containers) x each scalar event kind, bare and inside arrays/objects, with and without a type hint
			tg := kcTargets[x.Choose(len(kcTargets))]
			ev := kcLeaves[x.Choose(len(kcLeaves))]
			hint := structform.AnyType
			if x.Bool() {
				hint = hintOf(ev.K)
			}
			var evs []model.Event
			switch x.Choose(6) {
			case 0:
				evs = []model.Event{ev}
			case 1:
				evs = []model.Event{model.ArrStart(2, hint), ev, ev, model.ArrEnd()}
			case 2:
				evs = []model.Event{model.ObjStart(-1, hint), model.KeyRef("a"), ev, model.ObjEnd()}
			case 3:
				evs = []model.Event{model.ArrStart(-1, 0), model.ArrStart(1, hint), ev, model.ArrEnd(), model.Nil(), model.ArrEnd()}
			case 4:
				evs = []model.Event{model.ObjStart(1, 0), model.Key("a"), model.ObjStart(1, hint), model.Key("a"), ev, model.ObjEnd(), model.ObjEnd()}
			default:
				evs = []model.Event{model.ObjStart(-1, 0), model.Key("a"), model.ArrStart(-1, hint), ev, model.Nil(), model.ArrEnd(), model.Key("b"), ev, model.ObjEnd()}
			}
			prefill = x.Bool()
			defer func() { prefill = false }()
			runPair(x, tg, evs, "kind-cross:"+kindClass(tg.t)+"<-"+leafClass(ev), "kind-cross")
		}},
		{Name: "deep-nesting", Body: func(x *engine.Exec) {
			tIfc := reflect.TypeOf((*interface{})(nil)).Elem()
			n := []int{3, 4, 5, 6, 9, 33, 70}[x.Choose(7)]
			obj := x.Bool()
			var evs []model.Event
			for i := 0; i < n; i++ {
				if obj && i%2 == 1 {
					evs = append(evs, model.ObjStart(-1, 0), model.KeyRef("k"))
				} else {
					evs = append(evs, model.ArrStart(1, 0))
				}
			}
			evs = append(evs, model.StrRef("leaf"))
			for i := n - 1; i >= 0; i-- {
				if obj && i%2 == 1 {
					evs = append(evs, model.ObjEnd())
				} else {
					evs = append(evs, model.ArrEnd())
				}
			}
			want, _ := model.ValueOf(evs)
			target := reflect.New(tIfc)
			res := unfoldInto(x, "gotype.Unfolder", "deep-nesting", "deep", target.Interface(), evs)
			x.Case(fmt.Sprintf("deep|%d|%v", n, obj), true)
			x.Count("pairs_run", 1)
			got := model.RefFold(target.Elem().Interface())
			if res.Bad() || res.Err != nil || got.Refuse || !model.Equal(want, got.V, model.Exact) {
				x.Violation("gotype.Unfolder", "wrong-value", "deep-nesting", fmt.Sprintf("nesting %d: %v %v got %s", n, res.Panic, res.Err, trunc(got.V.String(), 200)), map[string]interface{}{"depth": n, "objects": obj})
			}
		}},
	}

	// abandonment histories (explicit-state search)
	type doc struct {
		name string
		mk   func() reflect.Value
		evs  []model.Event
		cuts []int // abandon only after these many events (nil: after every event)
	}
	tIfc := reflect.TypeOf((*interface{})(nil)).Elem()
	innerSlice := reflect.SliceOf(gen.Inner)
	obj := []model.Event{model.ObjStart(-1, 0), model.KeyRef("a"), model.ArrStart(2, 0), model.SInt(model.KInt8, 1), model.ObjStart(1, 0), model.KeyRef("x"), model.StrRef("s"), model.ObjEnd(), model.ArrEnd(),
		model.Key("b"), model.ObjStart(-1, 0), model.Key("k"), model.Nil(), model.ObjEnd(), model.Key("x"), model.SInt(model.KInt8, 5), model.ObjEnd()}
	arr := []model.Event{model.ArrStart(-1, 0), model.ObjStart(-1, 0), model.KeyRef("x"), model.SInt(model.KInt8, 1), model.KeyRef("unknown"), model.ArrStart(1, 0), model.StrRef("q"), model.ArrEnd(), model.ObjEnd(), model.ObjStart(0, 0), model.ObjEnd(), model.ArrEnd()}
	docs := []doc{
		{name: "interface<-object", mk: func() reflect.Value { return reflect.New(tIfc) }, evs: obj},
		{name: "map[string]interface<-object", mk: func() reflect.Value { return reflect.New(reflect.MapOf(reflect.TypeOf(""), tIfc)) }, evs: obj},
		{name: "c17S<-object", mk: func() reflect.Value { return reflect.New(reflect.TypeOf(c17S{})) }, evs: obj},
		{name: "[]Inner<-array", mk: func() reflect.Value { return reflect.New(innerSlice) }, evs: arr},
		{name: "[]interface<-array", mk: func() reflect.Value { return reflect.New(reflect.SliceOf(tIfc)) }, evs: arr},
		{name: "**Inner<-object", mk: func() reflect.Value { return reflect.New(reflect.PtrTo(reflect.PtrTo(gen.Inner))) }, evs: []model.Event{model.ObjStart(-1, 0), model.KeyRef("x"), model.SInt(model.KInt8, 1), model.KeyRef("s"), model.StrRef("v"), model.ObjEnd()}},
		{name: "[]int<-mismatch", mk: func() reflect.Value { return reflect.New(reflect.SliceOf(reflect.TypeOf(0))) }, evs: []model.Event{model.ArrStart(-1, 0), model.SInt(model.KInt8, 1), model.StrRef("boom"), model.ArrEnd()}},
		// reflected maps and slices of structs whose elements set different subsets of their fields
		{name: "map[string]Inner<-two-elements", mk: func() reflect.Value { return reflect.New(reflect.MapOf(reflect.TypeOf(""), gen.Inner)) }, evs:
			[]model.Event{model.ObjStart(2, 0), model.KeyRef("p"), model.ObjStart(-1, 0), model.KeyRef("x"), model.SInt(model.KInt8, 1), model.KeyRef("s"), model.StrRef("a"), model.ObjEnd(),
				model.KeyRef("q"), model.ObjStart(-1, 0), model.KeyRef("s"), model.StrRef("b"), model.ObjEnd(), model.ObjEnd()}},
		{name: "map[string]Inner<-partial-element", mk: func() reflect.Value { return reflect.New(reflect.MapOf(reflect.TypeOf(""), gen.Inner)) }, evs:
			[]model.Event{model.ObjStart(-1, 0), model.KeyRef("r"), model.ObjStart(-1, 0), model.KeyRef("s"), model.StrRef("c"), model.ObjEnd(), model.ObjEnd()}},
		{name: "map[string]*Inner<-object", mk: func() reflect.Value { return reflect.New(reflect.MapOf(reflect.TypeOf(""), reflect.PtrTo(gen.Inner))) }, evs:
			[]model.Event{model.ObjStart(-1, 0), model.KeyRef("r"), model.ObjStart(-1, 0), model.KeyRef("x"), model.SInt(model.KInt8, 3), model.ObjEnd(), model.KeyRef("n"), model.Nil(), model.ObjEnd()}},
	}
	// a type whose meaning depends on its tags (renamed, hidden and inlined fields), first seen by the instance after earlier documents
	tagged := reflect.StructOf([]reflect.StructField{{Name: "Name", Type: reflect.TypeOf(""), Tag: `struct:"nm"`}, {Name: "Secret", Type: reflect.TypeOf(""), Tag: `struct:"-"`},
		{Name: "In", Type: gen.Inner, Tag: `struct:",inline"`}, {Name: "Opt", Type: reflect.PtrTo(reflect.TypeOf(0)), Tag: `struct:"o,omitempty"`}})
	docs = append(docs, doc{name: "tagged<-object", mk: func() reflect.Value { return reflect.New(tagged) }, evs:
		[]model.Event{model.ObjStart(-1, 0), model.KeyRef("nm"), model.StrRef("abc"), model.KeyRef("secret"), model.StrRef("leak"), model.KeyRef("name"), model.StrRef("zzz"), model.KeyRef("x"), model.SInt(model.KInt8, 80), model.KeyRef("o"), model.SInt(model.KInt8, 1), model.ObjEnd()}})
	// targets that must be refused, sharing a self-referential struct type: whatever was compiled on the way to the refusal
	// must not make a later SetTarget accept what a new unfolder refuses
	{
		one := []model.Event{model.ObjStart(-1, 0), model.KeyRef("next"), model.Nil(), model.ObjEnd()}
		docs = append(docs, doc{name: "SeedBadRec<-object (unsupported)", mk: func() reflect.Value { return reflect.New(reflect.TypeOf(SeedBadRec{})) }, evs: one, cuts: []int{len(one)}},
			doc{name: "[]SeedBadRec<-array (unsupported)", mk: func() reflect.Value { return reflect.New(reflect.TypeOf([]SeedBadRec{})) }, evs: append(append([]model.Event{model.ArrStart(-1, 0)}, one...), model.ArrEnd()), cuts: []int{6}},
			doc{name: "**SeedBadRec<-object (unsupported)", mk: func() reflect.Value { return reflect.New(reflect.TypeOf((**SeedBadRec)(nil))) }, evs: one, cuts: []int{len(one)}})
	}
	// a refusal that happens while a document is being processed (the cell type of a processing unfolder), then targets
	// of the types that were compiled on the way
	{
		empty := []model.Event{model.ArrStart(-1, 0), model.ArrEnd()}
		docs = append(docs, doc{name: "c14Poisoned<-array (cell type refused at document time)", mk: func() reflect.Value { return reflect.New(reflect.TypeOf(c14Poisoned{})) }, evs: empty, cuts: []int{1, 2}},
			doc{name: "*c14PoisonList<-array (unsupported)", mk: func() reflect.Value { return reflect.New(reflect.TypeOf((*c14PoisonList)(nil))) },
				evs: []model.Event{model.ArrStart(-1, 0), model.ObjStart(-1, 0), model.KeyRef("p"), model.ArrStart(-1, 0), model.ArrEnd(), model.ObjEnd(), model.ArrEnd()}, cuts: []int{7}})
	}
	// documents nested beyond the unfolder's inline stacks (32 entries; they grow at 33 and 65): abandoned around those depths
	{
		var deepEvs []model.Event
		for i := 0; i < 40; i++ {
			deepEvs = append(deepEvs, model.ArrStart(-1, 0))
		}
		deepEvs = append(deepEvs, model.StrRef("leaf"))
		for i := 0; i < 40; i++ {
			deepEvs = append(deepEvs, model.ArrEnd())
		}
		docs = append(docs, doc{name: "interface<-40 nested arrays", mk: func() reflect.Value { return reflect.New(tIfc) }, evs: deepEvs, cuts: []int{15, 16, 17, 31, 32, 33, 34, 40, 41, 42, 60, 80}})
		// struct-in-slice nesting: type L struct{ K []L } 20 levels deep (two unfolder states per level)
		lt := reflect.TypeOf(SeedRecSlice{})
		var sEvs []model.Event
		for i := 0; i < 20; i++ {
			sEvs = append(sEvs, model.ObjStart(-1, 0), model.KeyRef("kids"), model.ArrStart(-1, 0))
		}
		for i := 0; i < 20; i++ {
			sEvs = append(sEvs, model.ArrEnd(), model.ObjEnd())
		}
		docs = append(docs, doc{name: "SeedRecSlice<-20 nested levels", mk: func() reflect.Value { return reflect.New(lt) }, evs: sEvs, cuts: []int{30, 45, 48, 51, 60, 61, 70, 100}})
	}
	// ops: (doc, cut k) for every k including the complete document
	type op struct {
		d, k int
	}
	var ops []op
	for di, d := range docs {
		if d.cuts != nil {
			for _, k := range d.cuts {
				ops = append(ops, op{di, k})
			}
			continue
		}
		for k := 1; k <= len(d.evs); k++ {
			ops = append(ops, op{di, k})
		}
	}
	followUps := []int{0, 2, 3, 5, 8, 9, 10, 11, 12, 17}
	skip := map[string]bool{"reg": true, "userReg": true, "keyCache": true}
	m := &engine.BFSModel{Name: "gotype.Unfolder(abandon+Reset)", NumOps: len(ops) + len(followUps),
		OpName: func(i int) string {
			if i >= len(ops) {
				return "complete:" + docs[followUps[i-len(ops)]].name
			}
			o := ops[i]
			if o.k == len(docs[o.d].evs) {
				return "complete:" + docs[o.d].name
			}
			return fmt.Sprintf("abandon(%s after event %d: %s)", docs[o.d].name, o.k, docs[o.d].evs[o.k-1])
		},
		Run: func(h []int, opi int) (string, string, string, string) {
			u, err := gotype.NewUnfolder(nil, gotype.Unfolders(func(to *c14Poisoned) (interface{}, func(*c14Poisoned, interface{}) error) {
				return new(c14PoisonList), func(*c14Poisoned, interface{}) error { return nil }
			}))
			if err != nil {
				return "", "", "", err.Error()
			}
			v := structform.EnsureExtVisitor(u)
			var out string
			first := true
			apply := func(i int, last bool) error {
				var d doc
				k := 0
				if i >= len(ops) {
					d = docs[followUps[i-len(ops)]]
					k = len(d.evs)
				} else {
					d, k = docs[ops[i].d], ops[i].k
				}
				if !first {
					u.Reset() // the first document meets the unfolder exactly as NewUnfolder left it: that is the reference behaviour
				}
				first = false
				t := d.mk()
				if err := u.SetTarget(t.Interface()); err != nil {
					// a refused target is an outcome like any other: a new unfolder must refuse it as well
					if last {
						out = "target refused|" + errStr(err)
					}
					return nil
				}
				var derr error
				for _, e := range d.evs[:k] {
					if derr = model.DriveOne(v, e); derr != nil {
						break
					}
				}
				if last {
					out = model.Dump(t.Interface()) + "|" + errStr(derr)
				}
				return nil
			}
			res := guard(3000000, func() error {
				for _, i := range h {
					if err := apply(i, false); err != nil {
						return err
					}
				}
				if opi >= 0 {
					if err := apply(opi, true); err != nil {
						return err
					}
				}
				u.Reset()
				return nil
			})
			if res.Bad() {
				return "", "", "", res.Symptom() + ": " + res.Panic + res.Where
			}
			if res.Err != nil {
				return "", "", "", res.Err.Error()
			}
			fp := model.Fingerprint(u, model.FPOpts{Skip: skip, DepthsOnly: true})
			return out, fp, model.Fingerprint(u, model.FPOpts{Skip: map[string]bool{}}), ""
		}}
	const parts = 12 // the search is split by the first operation of the history, the parts run in parallel
	for part := 0; part < parts; part++ {
		part := part
		fams = append(fams, engine.Family{Name: fmt.Sprintf("abandon-reset-%02d", part), Body: func(x *engine.Exec) {
			x.Sample(func() interface{} {
				return map[string]interface{}{"component": m.Name, "operations": m.NumOps, "part": fmt.Sprintf("%d of %d (by first operation)", part+1, parts), "example_history": []string{m.OpName(3), m.OpName(len(ops))}}
			})
			engine.BFS(x, m, engine.BFSOpts{UnprunedDepth: tierPick(tier, 1, 2), MaxDepth: tierPick(tier, 3, 4), Part: part, Parts: parts})
		}})
	}
	return fams
}
