package props

import (
	"bytes"
	"fmt"
	"io"
	"strings"

	"verif/mc/engine"
	"verif/mc/model"
)

var c18Corpus = map[*Codec][][]byte{
	codecJSON: {[]byte(`1`), []byte(`[1,"a"]`), []byte(`"a"`), []byte(`{"a":[true]}`), []byte(`-2.5e1`), []byte(`true`), []byte(`null`),
		[]byte(`[]`), []byte(`{}`), []byte("\"\\u00e9x\""), []byte(`[[],{}]`), []byte(`12345678901234567890`)},
	codecCBOR: {{0x01}, {0x82, 0x01, 0x61, 'a'}, {0x61, 'a'}, {0xa1, 0x61, 'a', 0x81, 0xf5}, {0x38, 0xc7}, {0xf5}, {0xf6}, {0x80}, {0xa0},
		{0x9f, 0x01, 0xff}, {0xbf, 0x60, 0xf6, 0xff}, {0x42, 1, 2}, {0xfa, 0x3f, 0x80, 0, 0}, {0x60}, {0x19, 0x01, 0x00}},
	codecUBJSON: {{'i', 1}, []byte("[#i\x02i\x01Si\x01a"), []byte("Si\x01a"), []byte("{i\x01a[T]}"), {'I', 1, 0}, {'T'}, {'Z'}, {'[', ']'}, {'{', '}'},
		[]byte("[$U#i\x02\x01\x02"), []byte("{#i\x01i\x01aT"), []byte("[$Z#i\x02"), []byte("[#i\x00"), []byte("SU\x00"), []byte("[[]N]"), []byte("{$i#i\x01i\x00\x05")},
}

var c18Seps = []string{" ", "\n", "\t \r\n"}

// schedReader answers every Read with a length chosen by the explorer.
type schedReader struct {
	x          *engine.Exec
	data       []byte
	p          int
	exhaustive bool // all read sizes are value choices; otherwise short reads are deviations
	eofWith    bool
	reads      int
	zeros      int
	noZero     bool // no (0, nil) answers in this schedule
	last       []byte
	trace      []int
}

func (r *schedReader) Read(p []byte) (int, error) {
	for i := range r.last {
		r.last[i] = 0xAA
	}
	r.last = nil
	r.reads++
	if r.reads > 10*len(r.data)+20 {
		panic("reader consulted far too often")
	}
	if len(p) == 0 {
		return 0, nil
	}
	// "nothing happened": a Read may return (0, nil) (io.Reader allows it, callers have to try again); at most one per
	// schedule, as a deviation
	if !r.noZero && r.zeros < 1 && r.x.Dev(2) == 1 {
		r.zeros++
		r.trace = append(r.trace, 0)
		return 0, nil
	}
	rem := len(r.data) - r.p
	if rem == 0 {
		return 0, io.EOF
	}
	max := len(p)
	if rem < max {
		max = rem
	}
	n := max
	if max > 1 {
		if r.exhaustive {
			n = max - r.x.Choose(max)
		} else {
			n = max - r.x.Dev(max)
		}
	}
	copy(p, r.data[r.p:r.p+n])
	r.p += n
	r.last = p[:n]
	r.trace = append(r.trace, n)
	if r.p == len(r.data) && r.eofWith {
		return n, io.EOF
	}
	return n, nil
}

func init() {
	register(func() {
		engine.Register(&engine.Check{
			ID: "C18", Level: "model_checking",
			Rule:        "streams of k in {0,1,2(,3)} values from a per-format corpus (JSON separated by each whitespace form, with and without trailing whitespace, incl. a trailing number) and every truncation of them x decoder kind {byte slice, io.Reader} x buffer size {1,2,3,7,64} x reader schedule: the size of every Read answer is chosen by the explorer (all compositions for streams <=10 bytes, at most 2 short reads beyond) x io.EOF together with the last bytes or separately x one read that returns (0, nil) at any position; executed on the real decoders; oracle: one reference value (refjson/refcbor/refubj) per successful Next, then io.EOF; a truncated stream yields an error other than io.EOF; a case = (stream, decoder, buffer, read schedule); non-trivial = at least two reads",
			Assumptions: []string{"at most one zero-byte read (0, nil) per schedule", "reference decoders define the i-th value"},
			Families:    c18Families,
			Bounds: func(tier string) map[string]interface{} {
				return map[string]interface{}{"max_values_per_stream": tierPick(tier, 2, 3), "all_read_schedules_up_to_bytes": 10, "short_reads_beyond": 2}
			},
			Require: []string{"streams_complete", "streams_truncated", "multi_read"},
		})
	})
}

func c18Families(tier string) []engine.Family {
	maxK := tierPick(tier, 2, 3)
	bufs := []int{1, 2, 3, 7, 64, 0} // (0: a decoder that cannot read must say so instead of polling its reader forever)
	var fams []engine.Family
	for _, cd := range codecs {
		cd := cd
		corpus := c18Corpus[cd]
		fams = append(fams, engine.Family{Name: "streams-" + cd.Name, Arity: []int{maxK + 1, len(corpus)}, Dev: 2, Body: func(x *engine.Exec) {
			k := x.Choose(maxK + 1)
			var stream []byte
			for i := 0; i < k; i++ {
				v := corpus[x.Choose(len(corpus))]
				if i > 0 && cd == codecJSON {
					stream = append(stream, c18Seps[x.Choose(len(c18Seps))]...)
				}
				stream = append(stream, v...)
			}
			if cd == codecJSON && k > 0 && x.Bool() {
				stream = append(stream, ' ')
			}
			// truncation: 0 = none, t = keep the first len-t bytes
			if len(stream) > 1 {
				t := x.Choose(len(stream))
				stream = stream[:len(stream)-t]
			}
			c18NoZero = k >= 3 // streams of three values (thorough tier) are explored without (0, nil) reads
			c18Body(x, cd, stream, bufs)
			c18NoZero = false
		}})
	}
	// long items: strings and field names whose LENGTH BYTE equals a structural marker of the format ('}' = 125, ']' = 93,
	// 0xff = the CBOR break), longer than the small buffers, followed by a second value; read sizes: at most 2 short reads
	long := map[*Codec][][]byte{
		codecUBJSON: {cat2([]byte{'{', 'U', 125}, bytes.Repeat([]byte{'k'}, 125), []byte{'i', 1, '}'}), cat2([]byte{'{', 'i', 125}, bytes.Repeat([]byte{'k'}, 125), []byte{'T', '}'}),
			cat2([]byte{'[', 'S', 'U', 93}, bytes.Repeat([]byte{'s'}, 93), []byte{']'}), cat2([]byte{'S', 'i', 78}, bytes.Repeat([]byte{'N'}, 78)),
			cat2([]byte{'{', '#', 'i', 1, 'U', 35}, bytes.Repeat([]byte{'#'}, 35), []byte{'S', 'U', 36}, bytes.Repeat([]byte{'$'}, 36))},
		codecCBOR: {cat2([]byte{0x78, 0xff}, bytes.Repeat([]byte{'t'}, 255)), cat2([]byte{0xbf, 0x78, 0xff}, bytes.Repeat([]byte{0xff}, 255), []byte{0x01, 0xff}),
			cat2([]byte{0x9f, 0x58, 0xff}, bytes.Repeat([]byte{0xff}, 255), []byte{0xff}), cat2([]byte{0xa1, 0x78, 0x9f}, bytes.Repeat([]byte{0x9f}, 0x9f), []byte{0x80})},
		codecJSON: {[]byte(`"` + strings.Repeat("x", 70) + `"`), []byte(`{"` + strings.Repeat(`\"`, 40) + `":[1]}`), []byte(`["` + strings.Repeat("]", 66) + `",2]`), []byte(`[` + strings.Repeat("1234567890", 7) + `.5]`)},
	}
	for _, cd := range codecs {
		cd := cd
		items := long[cd]
		small := c18Corpus[cd]
		fams = append(fams, engine.Family{Name: "long-items-" + cd.Name, Arity: []int{len(items), 3}, Dev: 2, Body: func(x *engine.Exec) {
			stream := append([]byte{}, items[x.Choose(len(items))]...)
			switch x.Choose(3) {
			case 1: // followed by a small value
				if cd == codecJSON {
					stream = append(stream, ' ')
				}
				stream = append(stream, small[x.Choose(4)]...)
			case 2: // cut inside the long item
				stream = stream[:len(stream)-[]int{1, 2, 40}[x.Choose(3)]]
			}
			c18Body(x, cd, stream, []int{2, 7, 64})
		}})
	}
	return fams
}

var c18NoZero bool

func c18Body(x *engine.Exec, cd *Codec, stream []byte, bufs []int) {
	ref := refOf(cd, stream)
	if ref.Status != model.Complete && ref.Status != model.Truncated {
		engine.Fail("c18 corpus stream %x is %v", stream, ref.Status)
	}
	kind := x.Choose(2)
	buf := 0
	eofWith := false
	if kind == 1 {
		buf = bufs[x.Choose(len(bufs))]
		eofWith = x.Bool()
	}
	rec := model.NewRecorder()
	var rd *schedReader
	var calls []string
	var perCall [][]model.Event
	budget := int64(5000 + 600*len(stream))
	res := guard(budget, func() error {
		var d Nexter
		if kind == 0 {
			d = cd.BytesDec(append([]byte(nil), stream...), rec)
		} else {
			rd = &schedReader{x: x, data: stream, exhaustive: len(stream) <= 10, eofWith: eofWith, noZero: c18NoZero}
			d = cd.ReaderDec(rd, buf, rec)
		}
		for i := 0; i <= len(stream)+2; i++ {
			before := len(rec.Evs)
			err := d.Next()
			calls = append(calls, errStr(err))
			perCall = append(perCall, rec.Evs[before:])
			if err != nil {
				return err
			}
		}
		return errNoTermination
	})
	var trace []int
	if rd != nil {
		trace = rd.trace
	}
	entry := cd.Name + [...]string{".BytesDecoder", ".ReaderDecoder"}[kind]
	class := fmt.Sprintf("%s:k=%d", ref.Status, len(ref.Values))
	x.Case(fmt.Sprintf("%s|%x|%d|%d|%v|%v", cd.Name, stream, kind, buf, eofWith, trace), len(trace) >= 2)
	if len(trace) >= 2 {
		x.Count("multi_read", 1)
	}
	desc := func() interface{} {
		return map[string]interface{}{"codec": cd.Name, "hex": hexs(stream), "text": trunc(fmt.Sprintf("%q", stream), 120), "decoder": entry, "buffer": buf,
			"reads": trace, "eof_with_last_bytes": eofWith, "ref": ref.Status.String(), "ref_values": len(ref.Values), "calls": calls}
	}
	x.Sample(desc)
	wit := func() interface{} {
		m := desc().(map[string]interface{})
		var ev []string
		for _, pc := range perCall {
			ev = append(ev, model.EventsString(pc))
		}
		m["events_per_call"] = ev
		return m
	}
	if res.Bad() {
		x.Violation(entry, res.Symptom(), class, res.Panic+res.Where, wit())
		return
	}
	if kind == 1 && buf == 0 {
		// nothing can be read through a zero-length buffer: any error is fine, success or endless polling is not
		if res.Err == nil || res.Err == errNoTermination {
			x.Violation(entry, "zero-buffer-no-error", class, "a decoder with a zero-length buffer did not report an error", wit())
		}
		return
	}
	if res.Err == errNoTermination {
		x.Violation(entry, "hang", class, "Next keeps returning nil", wit())
		return
	}
	// every successful call delivers exactly the next reference value
	ok := len(calls) - 1
	for i := 0; i < ok; i++ {
		if i >= len(ref.Values) {
			x.Violation(entry, "extra-value", class, fmt.Sprintf("call %d returned nil but the stream holds only %d complete values", i+1, len(ref.Values)), wit())
			return
		}
		vs, err := model.ValuesOf(perCall[i])
		if err != nil || len(vs) != 1 || !model.Equal(ref.Values[i], vs[0], model.Exact) {
			x.Violation(entry, "wrong-value-per-call", class, fmt.Sprintf("call %d: want exactly %s, got %d values (%v)", i+1, trunc(ref.Values[i].String(), 200), len(vs), err), wit())
			return
		}
	}
	last := perCall[len(perCall)-1]
	if ref.Status == model.Complete {
		x.Count("streams_complete", 1)
		if ok != len(ref.Values) {
			x.Violation(entry, "missing-value", class, fmt.Sprintf("%d calls succeeded, the stream holds %d values; final error %v", ok, len(ref.Values), errStr(res.Err)), wit())
			return
		}
		if res.Err != io.EOF {
			x.Violation(entry, "no-clean-eof", class, fmt.Sprintf("after %d values Next returned %v instead of io.EOF", ok, errStr(res.Err)), wit())
			return
		}
		if len(last) != 0 {
			x.Violation(entry, "events-with-eof", class, "the call that returned io.EOF delivered events", wit())
			return
		}
	} else {
		x.Count("streams_truncated", 1)
		if res.Err == io.EOF {
			x.Violation(entry, "truncated-accepted", class, "stream ends inside a value but the decoder reports a clean io.EOF", wit())
			return
		}
	}
	x.Outcome(entry + "|" + fmt.Sprint(ok) + "|" + errStr(res.Err))
}
