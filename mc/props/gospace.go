package props

import (
	"fmt"
	"reflect"
	"strings"

	structform "github.com/elastic/go-structform"
	"github.com/elastic/go-structform/gotype"

	"verif/mc/engine"
	"verif/mc/gen"
	"verif/mc/model"
)

// GoCase is one enumerated (Go type, value) pair.
type GoCase struct {
	T     reflect.Type
	V     reflect.Value // addressable value of type T
	Desc  string        // type descriptor
	Class string        // witness class (function of the type descriptor's shape)
	Fam   string
	Opts  []gotype.FoldOption
	UOpts []gotype.UnfoldOption
	// Custom models the folders registered through Opts (model.CustomFolders is set to it while the case is judged)
	Custom map[reflect.Type]func(ptr reflect.Value) model.Value
}

func (c *GoCase) Sample() interface{} {
	return map[string]interface{}{"type": c.Desc, "value": trunc(dumpV(c.V), 300)}
}

func (c *GoCase) Key() string { return c.Desc + "|" + dumpV(c.V) }

// ---- compiled seed types (cannot be built with reflect.StructOf) ----

// the method-bearing seed types live in package gen so that they can also serve as field types of generated structs
type (
	SeedMyInt   = gen.SeedMyInt
	SeedMyStr   = gen.SeedMyStr
	SeedMyMap   = gen.SeedMyMap
	SeedMySlice = gen.SeedMySlice
	SeedMyArr   = gen.SeedMyArr
	SeedMyIfc   = gen.SeedMyIfc
	SeedFolderV = gen.SeedFolderV
	SeedFolderP = gen.SeedFolderP
	SeedZeroV   = gen.SeedZeroV
	SeedZeroP   = gen.SeedZeroP
)

type seedImpl struct{ N int }

func (seedImpl) M() {}

type SeedRec struct {
	V    int
	Next *SeedRec
}
type SeedRecSlice struct {
	Kids []SeedRecSlice
}

type seedZeroSized struct {
	A gen.SeedZeroArr   `struct:"a,omitempty"`
	S gen.SeedZeroStr   `struct:"s,omitempty"`
	L gen.SeedZeroSlice `struct:"l,omitempty"`
	M gen.SeedZeroMap   `struct:"m,omitempty"`
	I interface{}       `struct:"i,omitempty"`
	P *gen.SeedZeroArr  `struct:"p,omitempty"`
	Z int               `struct:"z"`
}

type seedFolderHolder struct {
	A int
	F gotype.Folder
}

// maps keyed by a defined string type
type SeedKey string
type SeedKeyed struct {
	M map[SeedKey]seedEmbedded `struct:"m"`
	P map[SeedKey]*int         `struct:"p,omitempty"`
}

// self-referential types that are not structs
type SeedTreeMap map[string]SeedTreeMap
type SeedTreeSlice []SeedTreeSlice
type SeedPtrList []*SeedPtrList
type SeedMapOfSlices map[string][]SeedMapOfSlices
type SeedChain struct {
	V    int        `struct:"v"`
	Next *SeedChain `struct:",inline"` // a nil pointer inlines nothing
}
type SeedHasTrees struct {
	T SeedTreeMap   `struct:"t"`
	S SeedTreeSlice `struct:"s,omitempty"`
	N int           `struct:"n"`
}

// re-entrant container types: folding an element folds the same map type again, and fields follow the map
type SeedNode struct {
	Kids map[string]SeedNode `struct:"kids"`
	Name string              `struct:"name"`
	W    int                 `struct:"w"`
}
type SeedNodeI struct {
	M     map[string]interface{} `struct:"m"`
	After string                 `struct:"after"`
	L     []SeedNodeI            `struct:"l"`
	Tail  int                    `struct:"tail"`
}

type seedEmbedded struct {
	E int
}
type SeedWithUnexported struct {
	Pub  int
	priv int
	seedEmbedded
	Named SeedMyInt
}

type SeedHolder struct {
	FV  SeedFolderV  `struct:"fv"`
	FP  SeedFolderP  `struct:"fp"`
	PFV *SeedFolderV `struct:"pfv,omitempty"`
	ZV  SeedZeroV    `struct:"zv,omitempty"`
	ZP  SeedZeroP    `struct:"zp,omitempty"`
	PZV *SeedZeroV   `struct:"pzv,omitempty"`
	I   interface{}  `struct:"i,omitempty"`
}
type SeedInlineFolderV struct {
	A int
	F SeedFolderV `struct:",inline"`
}
type SeedInlineFolderP struct {
	F *SeedFolderP `struct:",inline"`
	B int
}
type SeedInlineIfc struct {
	I interface{} `struct:",inline"`
	B string
}
type seedInlineIfc2 struct {
	X int
	I interface{} `struct:",inline"`
}
type SeedInlinePtr struct {
	P *seedInner2 `struct:",inline"`
	Q int
}
type seedInner2 struct {
	X int
	M map[string]bool `struct:",inline"`
}
type SeedCustom struct{ N int }
type SeedCustomHolder struct {
	C  SeedCustom  `struct:"c"`
	P  *SeedCustom `struct:"p"`
	In SeedCustom  `struct:",inline"`
}
// a self-referential struct that cannot be handled: the types compiled on the way (its pointer, slices of it) must not
// survive the refusal in a usable-looking state
type SeedBadRec struct {
	Next *SeedBadRec
	C    chan int
}
// inline on a pointer to a primitive: refused by type, whatever the value - also the second time
type SeedBadInline struct {
	A int
	P *int `struct:",inline"`
}
type SeedBad1 struct{ C chan int }
type SeedBad2 struct{ F func() }
type SeedBad3 struct{ C complex128 }
type SeedBad4 struct{ M map[int]string }
type SeedBad5 struct {
	A int `struct:",inline,omitempty"`
}
type SeedArrField struct{ A [3]int8 }
type SeedNamedFields struct {
	M SeedMyMap   `struct:"m,omitempty"`
	S SeedMySlice `struct:"s,omitempty"`
	I SeedMyIfc   `struct:"i"`
	N SeedMyStr   `struct:"n,omitempty"`
}

func foldSeedCustom(c *SeedCustom, v structform.ExtVisitor) error {
	if c == nil {
		return v.OnNil()
	}
	if err := v.OnObjectStart(1, structform.AnyType); err != nil {
		return err
	}
	if err := v.OnKey("folded"); err != nil {
		return err
	}
	if err := v.OnInt(c.N * 10); err != nil {
		return err
	}
	return v.OnObjectFinished()
}

type seed struct {
	name   string
	vals   []interface{}
	opts   []gotype.FoldOption
	custom map[reflect.Type]func(ptr reflect.Value) model.Value
}

// folders registered for a named primitive type and for built-in unnamed types
type seedLevel uint8

// (written like the README's foldDuration: they do not expect nil - a nil pointer is null, it is not handed to the folder)
func foldSeedLevel(l *seedLevel, v structform.ExtVisitor) error {
	return v.OnString(fmt.Sprintf("L%d", *l))
}
func foldSeedFloat(f *float64, v structform.ExtVisitor) error {
	return v.OnString(fmt.Sprintf("F%v", *f))
}
func foldSeedBytes(b *[]byte, v structform.ExtVisitor) error {
	return v.OnString(fmt.Sprintf("B%x", *b))
}

// a folder registered for an INTERFACE type: fields of that type with and without omitempty, holding a value, a pointer, nil
type seedShape interface{ Area() int }
type seedSquare struct{ Side int }

func (s seedSquare) Area() int { return s.Side * s.Side }

type seedNamedShape string

func (s seedNamedShape) Area() int { return len(s) }

func foldSeedShape(s *seedShape, v structform.ExtVisitor) error {
	if *s == nil {
		return v.OnNil()
	}
	return v.OnString(fmt.Sprintf("shape:%d", (*s).Area()))
}

var seedShapeCustom = map[reflect.Type]func(ptr reflect.Value) model.Value{
	reflect.TypeOf((*seedShape)(nil)).Elem(): func(p reflect.Value) model.Value {
		if p.IsNil() || p.Elem().IsNil() {
			return model.NullV()
		}
		return model.StrV(fmt.Sprintf("shape:%d", p.Elem().Interface().(seedShape).Area()))
	},
}

type seedShapes struct {
	A seedShape `struct:"a"`
	O seedShape `struct:"o,omitempty"`
	Z int       `struct:"z"`
}

// registered folders for types whose values are "pointer shaped" (stored directly in an interface / reflect.Value word):
// a named map, a struct made of one pointer, an array of one pointer
type seedLabels map[string]string
type seedBox struct{ P *int64 }
type seedOne [1]*int64

func foldSeedLabels(m *seedLabels, v structform.ExtVisitor) error {
	if m == nil {
		return v.OnNil()
	}
	return v.OnString(fmt.Sprintf("labels:%d", len(*m)))
}
func foldSeedBox(b *seedBox, v structform.ExtVisitor) error {
	if b == nil {
		return v.OnNil()
	}
	if b.P == nil {
		return v.OnString("box:empty")
	}
	return v.OnString(fmt.Sprintf("box:%d", *b.P))
}
func foldSeedOne(a *seedOne, v structform.ExtVisitor) error {
	if a == nil {
		return v.OnNil()
	}
	if a[0] == nil {
		return v.OnString("one:empty")
	}
	return v.OnString(fmt.Sprintf("one:%d", *a[0]))
}

var seedShapedCustom = map[reflect.Type]func(ptr reflect.Value) model.Value{
	reflect.TypeOf(seedLabels(nil)): func(p reflect.Value) model.Value {
		if p.IsNil() {
			return model.NullV()
		}
		return model.StrV(fmt.Sprintf("labels:%d", p.Elem().Len()))
	},
	reflect.TypeOf(seedBox{}): func(p reflect.Value) model.Value {
		if p.IsNil() {
			return model.NullV()
		}
		if p.Elem().Field(0).IsNil() {
			return model.StrV("box:empty")
		}
		return model.StrV(fmt.Sprintf("box:%d", p.Elem().Field(0).Elem().Int()))
	},
	reflect.TypeOf(seedOne{}): func(p reflect.Value) model.Value {
		if p.IsNil() {
			return model.NullV()
		}
		if p.Elem().Index(0).IsNil() {
			return model.StrV("one:empty")
		}
		return model.StrV(fmt.Sprintf("one:%d", p.Elem().Index(0).Elem().Int()))
	},
}

func seedShapedValues() []interface{} {
	x := int64(7)
	lb := seedLabels{"a": "1", "b": "2"}
	return []interface{}{lb, &lb, seedLabels(nil), seedBox{&x}, &seedBox{&x}, seedBox{}, seedOne{&x}, &seedOne{&x},
		struct{ L seedLabels }{lb}, struct{ B seedBox }{seedBox{&x}}, struct{ O seedOne }{seedOne{&x}},
		struct {
			A int
			L seedLabels `struct:"l,omitempty"`
			B seedBox
		}{1, nil, seedBox{&x}},
		[]seedLabels{lb, nil}, []seedBox{{&x}, {}}, map[string]seedLabels{"k": lb}, map[string]seedBox{"k": {&x}}, map[string]seedOne{"k": {&x}},
		[]interface{}{lb, seedBox{&x}, seedOne{&x}, &lb}, map[string]interface{}{"l": lb, "b": seedBox{&x}},
		struct{ I interface{} }{lb}, struct{ I interface{} }{seedBox{&x}}, [2]seedBox{{&x}, {}}, struct{ P *seedLabels }{&lb}}
}

var seedBuiltinCustom = map[reflect.Type]func(ptr reflect.Value) model.Value{
	reflect.TypeOf(seedLevel(0)): func(p reflect.Value) model.Value {
		if p.IsNil() {
			return model.NullV()
		}
		return model.StrV(fmt.Sprintf("L%d", p.Elem().Uint()))
	},
	reflect.TypeOf(float64(0)): func(p reflect.Value) model.Value {
		if p.IsNil() {
			return model.NullV()
		}
		return model.StrV(fmt.Sprintf("F%v", p.Elem().Float()))
	},
	reflect.TypeOf([]byte(nil)): func(p reflect.Value) model.Value {
		if p.IsNil() {
			return model.NullV()
		}
		return model.StrV(fmt.Sprintf("B%x", p.Elem().Bytes()))
	},
}

func seedBuiltinValues() []interface{} {
	f := 2.5
	l := seedLevel(4)
	return []interface{}{seedLevel(1), []seedLevel{1, 2}, [2]seedLevel{1, 2}, map[string]seedLevel{"k": 3}, &l, struct{ L seedLevel }{5}, struct{ L []seedLevel }{[]seedLevel{6}}, []interface{}{seedLevel(7)},
		1.5, []float64{1.5, -2}, [2]float64{1, 2}, map[string]float64{"k": 1.5}, &f, (*float64)(nil), struct{ F float64 }{3.5}, []interface{}{1.5, []float64{4}}, map[string]interface{}{"k": 1.5}, struct{ I interface{} }{1.5},
		struct {
			A int
			M map[string]float64 `struct:",inline"`
		}{1, map[string]float64{"m": 0.5}},
		map[string][]float64{"k": {6}}, &[]float64{7}, struct{ F []float64 }{[]float64{8}}, struct{ F map[string]float64 }{map[string]float64{"k": 9}},
		[]byte{1, 2}, struct{ B []byte }{[]byte{3}}, []interface{}{[]byte{4}}, [][]byte{{5}}, map[string][]byte{"k": {6}}, struct{ P *float64 }{&f}, struct{ P *seedLevel }{&l},
		struct {
			F float64 `struct:",omitempty"`
		}{0}, float32(1.5), []float32{1.5}, []int{1}}
}


func rec(n int) *SeedRec {
	var r *SeedRec
	for i := 0; i < n; i++ {
		r = &SeedRec{V: i, Next: r}
	}
	return r
}

func seeds() []seed {
	i3 := 3
	return []seed{
		{"SeedMyInt", []interface{}{SeedMyInt(0), SeedMyInt(-7)}, nil, nil},
		{"SeedMyStr", []interface{}{SeedMyStr(""), SeedMyStr("x")}, nil, nil},
		{"SeedMyMap", []interface{}{SeedMyMap(nil), SeedMyMap{"a": 1}}, nil, nil},
		{"SeedMySlice", []interface{}{SeedMySlice(nil), SeedMySlice{"a", "b"}}, nil, nil},
		{"SeedMyArr", []interface{}{SeedMyArr{1, 2}}, nil, nil},
		{"SeedFolderV", []interface{}{SeedFolderV{1}, &SeedFolderV{2}}, nil, nil},
		{"SeedFolderP", []interface{}{SeedFolderP{1}, &SeedFolderP{2}}, nil, nil},
		{"SeedZeroV", []interface{}{SeedZeroV{}, SeedZeroV{1}}, nil, nil},
		{"SeedRec", []interface{}{SeedRec{}, *rec(3), rec(2)}, nil, nil},
		{"SeedRecSlice", []interface{}{SeedRecSlice{}, SeedRecSlice{Kids: []SeedRecSlice{{}, {Kids: []SeedRecSlice{{}}}}}}, nil, nil},
		{"SeedZeroSized", []interface{}{seedZeroSized{}, seedZeroSized{A: gen.SeedZeroArr{0, 0, 0, 1}, S: "zero", L: gen.SeedZeroSlice{0, 5}, M: gen.SeedZeroMap{"a": 1}, I: gen.SeedZeroArr{}},
			seedZeroSized{A: gen.SeedZeroArr{1}, S: "s", L: gen.SeedZeroSlice{5}, M: gen.SeedZeroMap{"x": 1}, I: gen.SeedZeroStr("zero"), P: &gen.SeedZeroArr{}},
			seedZeroSized{I: gen.SeedZeroSlice{0}, P: &gen.SeedZeroArr{1}}}, nil, nil},
		// fields, elements and map values whose STATIC type is an interface containing Fold: nil, a value, a nil pointer, a pointer
		{"SeedFolderIfc", []interface{}{seedFolderHolder{A: 1}, seedFolderHolder{A: 1, F: SeedFolderV{2}}, seedFolderHolder{A: 1, F: (*SeedFolderV)(nil)}, seedFolderHolder{A: 1, F: &SeedFolderP{3}},
			[]gotype.Folder{nil, SeedFolderV{1}, (*SeedFolderP)(nil)}, map[string]gotype.Folder{"k": nil}, map[string]gotype.Folder{"v": SeedFolderV{4}}, &seedFolderHolder{A: 2},
			struct {
				F gotype.Folder `struct:"f,omitempty"`
				Z int
			}{nil, 1}}, nil, nil},
		{"SeedNamedKeys", []interface{}{map[SeedKey]int{"a": 1}, map[SeedKey]seedEmbedded{"a": {1}}, map[SeedKey]*int{"n": nil}, map[SeedKey]*seedEmbedded{"p": {2}}, map[SeedKey][]string{"l": {"x"}},
			map[SeedKey]map[SeedKey]bool{"o": {"i": true}}, map[SeedKey]interface{}{"i": 1}, SeedKeyed{M: map[SeedKey]seedEmbedded{"k": {3}}, P: map[SeedKey]*int{"z": nil}}, SeedKeyed{}, []map[SeedKey]seedEmbedded{{"e": {4}}}}, nil, nil},
		{"SeedRecursiveContainers", []interface{}{SeedTreeMap{"a": {"b": {}}, "c": nil}, SeedTreeMap(nil), SeedTreeSlice{{}, {{}, nil}}, SeedTreeSlice(nil), SeedPtrList{&SeedPtrList{nil}, nil},
			SeedMapOfSlices{"k": {{"i": nil}, nil}}, SeedHasTrees{T: SeedTreeMap{"x": nil}, S: SeedTreeSlice{{}}, N: 1}, SeedHasTrees{}, &SeedTreeMap{"p": {}}, []SeedTreeMap{{"e": nil}}, SeedChain{V: 1}, SeedChain{V: 1, Next: &SeedChain{V: 2}}, []SeedChain{{V: 3}},
			map[string]SeedTreeSlice{"m": {{}}}, struct{ I interface{} }{SeedTreeMap{"in": {}}}}, nil, nil},
		{"SeedNode", []interface{}{
			SeedNode{Name: "a", W: 1, Kids: map[string]SeedNode{"b": {Name: "b", W: 2, Kids: map[string]SeedNode{"c": {Name: "c", W: 3, Kids: map[string]SeedNode{"d": {Name: "d", W: 4}}}}}}},
			map[string]SeedNode{"x": {Name: "x", W: 9, Kids: map[string]SeedNode{"y": {Name: "y", W: 8}}}},
			SeedNodeI{After: "a1", Tail: 1, M: map[string]interface{}{"k": SeedNodeI{After: "a2", Tail: 2, M: map[string]interface{}{"k": SeedNodeI{After: "a3", Tail: 3}}}}},
			SeedNodeI{After: "o", Tail: 1, L: []SeedNodeI{{After: "i1", Tail: 2, L: []SeedNodeI{{After: "i2", Tail: 3}}}, {After: "i3", Tail: 4}}},
			[]interface{}{map[string]interface{}{"p": []interface{}{map[string]interface{}{"q": 1}, "after-inner"}}, "after-outer"},
		}, nil, nil},
		{"SeedWithUnexported", []interface{}{SeedWithUnexported{Pub: 1, priv: 2, seedEmbedded: seedEmbedded{3}, Named: 4}}, nil, nil},
		{"SeedHolder", []interface{}{SeedHolder{}, SeedHolder{FV: SeedFolderV{1}, FP: SeedFolderP{2}, PFV: &SeedFolderV{3}, ZV: SeedZeroV{1}, ZP: SeedZeroP{1}, PZV: &SeedZeroV{0}, I: SeedZeroV{0}},
			SeedHolder{PZV: &SeedZeroV{5}, I: &SeedZeroP{0}}, SeedHolder{I: SeedZeroV{2}}, SeedHolder{I: &i3}, SeedHolder{I: ""}, SeedHolder{I: []int{}}}, nil, nil},
		{"SeedInlineFolderV", []interface{}{SeedInlineFolderV{A: 1, F: SeedFolderV{2}}}, nil, nil},
		{"SeedInlineFolderP", []interface{}{SeedInlineFolderP{F: &SeedFolderP{2}, B: 1}, SeedInlineFolderP{B: 1}}, nil, nil},
		{"SeedInlineIfc", []interface{}{SeedInlineIfc{B: "b"}, SeedInlineIfc{I: map[string]interface{}{"k": 1}, B: "b"}, SeedInlineIfc{I: seedInner2{X: 1}, B: "b"}, SeedInlineIfc{I: &seedInner2{X: 2, M: map[string]bool{"t": true}}, B: "b"},
			SeedInlineIfc{I: 5, B: "b"}, SeedInlineIfc{I: SeedFolderV{4}, B: "b"}}, nil, nil},
		// an inlined interface{} whose dynamic value again has an inlined interface{} / inlined Folder (same and different struct types, 2 and 3 levels)
		{"SeedInlineNested", []interface{}{SeedInlineIfc{I: SeedInlineIfc{I: map[string]interface{}{"k": 1}, B: "inner"}, B: "outer"},
			SeedInlineIfc{I: seedInlineIfc2{X: 1, I: map[string]interface{}{"z": 3}}, B: "b"}, SeedInlineIfc{I: seedInlineIfc2{X: 1}, B: "b"},
			SeedInlineIfc{I: &seedInlineIfc2{X: 1, I: seedInlineIfc2{X: 2, I: map[string]int{"q": 1}}}, B: "b"},
			SeedInlineIfc{I: SeedInlineIfc{I: SeedInlineIfc{I: map[string]interface{}{"deep": true}, B: "3"}, B: "2"}, B: "1"},
			SeedInlineIfc{I: SeedInlineFolderV{A: 1, F: SeedFolderV{2}}, B: "b"}, seedInlineIfc2{X: 1, I: SeedInlineFolderV{A: 1, F: SeedFolderV{2}}},
			[]interface{}{SeedInlineIfc{I: seedInlineIfc2{X: 1, I: map[string]interface{}{"z": 3}}, B: "b"}, SeedInlineIfc{I: map[string]interface{}{"k": 1}, B: "after"}}}, nil, nil},
		// an inlined interface{} holding a typed nil pointer / a nil map: nothing to inline
		{"SeedInlineTypedNil", []interface{}{SeedInlineIfc{I: (*seedInner2)(nil), B: "b"}, SeedInlineIfc{I: map[string]interface{}(nil), B: "b"}, SeedInlineIfc{I: (*SeedFolderV)(nil), B: "b"},
			seedInlineIfc2{X: 1, I: (*seedInlineIfc2)(nil)}, []interface{}{SeedInlineIfc{I: (*seedInner2)(nil), B: "1"}, SeedInlineIfc{I: &seedInner2{X: 2}, B: "2"}}}, nil, nil},
		{"SeedInlinePtr", []interface{}{SeedInlinePtr{Q: 1}, SeedInlinePtr{P: &seedInner2{X: 1, M: map[string]bool{"m": false}}, Q: 2}}, nil, nil},
		{"SeedCustomHolder", []interface{}{SeedCustomHolder{C: SeedCustom{1}, P: &SeedCustom{2}, In: SeedCustom{3}}, SeedCustomHolder{}, SeedCustom{4}, &SeedCustom{5}, []SeedCustom{{6}}, map[string]*SeedCustom{"k": {7}}},
			[]gotype.FoldOption{gotype.Folders(foldSeedCustom)}, nil},
		{name: "SeedBuiltinFolders", vals: seedBuiltinValues(), opts: []gotype.FoldOption{gotype.Folders(foldSeedLevel, foldSeedFloat, foldSeedBytes)}, custom: seedBuiltinCustom},
		{name: "SeedShapeFolder", vals: []interface{}{seedShapes{A: seedSquare{2}, O: seedSquare{3}}, seedShapes{A: &seedSquare{2}, O: &seedSquare{3}}, seedShapes{A: seedNamedShape("abc"), O: seedNamedShape("abcd")},
			seedShapes{}, seedShapes{O: seedNamedShape("")}, []seedShape{seedSquare{1}, nil}, map[string]seedShape{"k": seedSquare{5}}},
			opts: []gotype.FoldOption{gotype.Folders(foldSeedShape)}, custom: seedShapeCustom},
		{name: "SeedShapedFolders", vals: seedShapedValues(), opts: []gotype.FoldOption{gotype.Folders(foldSeedLabels, foldSeedBox, foldSeedOne)}, custom: seedShapedCustom},
		{"SeedBad1", []interface{}{SeedBad1{}, SeedBad1{C: make(chan int)}}, nil, nil},
		{"SeedBadInline", []interface{}{SeedBadInline{A: 1}, SeedBadInline{A: 1, P: new(int)}, &SeedBadInline{A: 2}, []SeedBadInline{{A: 3}}}, nil, nil},
		{"SeedBadRec", []interface{}{SeedBadRec{}, &SeedBadRec{}, []SeedBadRec{{}}, map[string]*SeedBadRec{"k": {}}}, nil, nil},
		{"SeedBad2", []interface{}{SeedBad2{}}, nil, nil},
		{"SeedBad3", []interface{}{SeedBad3{C: 1i}}, nil, nil},
		{"SeedBad4", []interface{}{SeedBad4{}, SeedBad4{M: map[int]string{1: "a"}}, map[int]string{1: "a"}}, nil, nil},
		{"SeedBad5", []interface{}{SeedBad5{A: 1}}, nil, nil},
		{"SeedArrField", []interface{}{SeedArrField{A: [3]int8{1, 2, 3}}, [2]string{"a", "b"}, &[1]int{1}}, nil, nil},
		{"SeedNamedFields", []interface{}{SeedNamedFields{}, SeedNamedFields{M: SeedMyMap{"a": 1}, S: SeedMySlice{"x"}, I: seedImpl{2}, N: "n"}, SeedNamedFields{M: SeedMyMap{}, S: SeedMySlice{}}}, nil, nil},
		{"SeedTags", []interface{}{gen.SeedTags{"a", "b"}, gen.SeedTags(nil), []gen.SeedTags{{"x"}, nil}, map[string]gen.SeedTags{"k": {"y"}}, struct{ T gen.SeedTags }{gen.SeedTags{"a", "b"}},
			[]interface{}{gen.SeedTags{"i"}}, &gen.SeedCounts{"a": 1, "b": 2}, gen.SeedCounts{"a": 3}, struct{ C gen.SeedCounts }{gen.SeedCounts{"a": 4}}, []gen.SeedCounts{{"a": 5}}, map[string]interface{}{"k": gen.SeedCounts{"a": 6}}}, nil, nil},
		{"deep", []interface{}{deepGeneric(5, 0), deepGeneric(6, 0), deepGeneric(9, 0), deepGeneric(5, 1), deepGeneric(6, 1), deepGeneric(10, 1), deepGeneric(6, 2), deepGeneric(7, 2), deepGeneric(17, 2),
			deepTyped(5), deepTyped(6), deepTyped(9), struct{ I interface{} }{deepGeneric(6, 0)}, []interface{}{deepGeneric(5, 0), deepGeneric(5, 1)}}, nil, nil},
		{"misc", []interface{}{nil, true, "s", 1.5, float32(0.1), uint64(1<<64 - 1), []interface{}{nil, 1, "a", []interface{}{}}, map[string]interface{}{"a": map[string]interface{}{"b": []int{1}}},
			[]byte{1, 2}, []uint16{1, 65535}, map[string]float32{"f": 0.5}, new(int), (*int)(nil), new(interface{}), [][]string{{"a"}, nil}, map[string][]interface{}{"k": {1}}, uintptr(5), make(chan int), func() {}}, nil, nil},
	}
}

func dumpV(v reflect.Value) string {
	if !v.IsValid() {
		return "<nil>"
	}
	return model.Dump(v.Interface())
}

// goFamilies enumerates Go types x values: generated one- and two-field structs over the
// field-type x tag-option alphabet (reflect.StructOf), plain and wrapped non-struct types, and
// the compiled seed types.
func goFamilies(tier string, run func(x *engine.Exec, c *GoCase)) []engine.Family {
	ft1 := gen.FieldTypes(1)
	ft0 := gen.FieldTypes(0)
	tags := gen.TagOptions
	capVals := func(vs []reflect.Value, n int) []reflect.Value {
		if len(vs) > n {
			// keep the zero value, the last (fullest) value and the ones in between up to n
			out := append([]reflect.Value{}, vs[:n-1]...)
			return append(out, vs[len(vs)-1])
		}
		return vs
	}
	mkStruct := func(x *engine.Exec, fam string, fts []gen.FieldType, tg []string, maxVals int) {
		spec := gen.StructSpec{Fields: fts, Tags: tg}
		t := spec.Build()
		v := reflect.New(t).Elem()
		for i := range fts {
			vals := capVals(gen.Values(fts[i].T, 0), maxVals)
			v.Field(i).Set(vals[x.Choose(len(vals))])
		}
		cl := "struct:"
		for i := range fts {
			if i > 0 {
				cl += "+"
			}
			cl += kindClass(fts[i].T) + tagClass(tg[i])
		}
		run(x, &GoCase{T: t, V: v, Desc: spec.String(), Class: cl, Fam: fam})
	}
	sd := seeds()
	scalarish := append(append(append([]gen.FieldType{}, gen.ScalarTypes...), gen.FieldType{Name: "interface{}", T: reflect.TypeOf((*interface{})(nil)).Elem()}), gen.NamedScalarTypes()...)
	fams := []engine.Family{
		{Name: "struct1", Arity: []int{len(ft1)}, Body: func(x *engine.Exec) {
			ft := ft1[x.Choose(len(ft1))]
			all := append(append([]string{}, tags...), tagSyntax...)
			tg := all[x.Choose(len(all))]
			mkStruct(x, "struct1", []gen.FieldType{ft}, []string{tg}, 24)
		}},
		{Name: "struct2", Arity: []int{len(ft0), len(tags)}, Body: func(x *engine.Exec) {
			f1 := ft0[x.Choose(len(ft0))]
			t1 := tags[x.Choose(len(tags))]
			f2 := ft0[x.Choose(len(ft0))]
			t2 := tags[x.Choose(len(tags))]
			mkStruct(x, "struct2", []gen.FieldType{f1, f2}, []string{t1, t2}, tierPick(tier, 3, 4))
		}},
		{Name: "struct2-seeds", Arity: []int{len(gen.SeedFieldTypes()), len(tags)}, Body: func(x *engine.Exec) {
			// a method-bearing seed type (IsZeroer / Folder with value and pointer receivers, named types) next to a plain field, in both orders
			sf := gen.SeedFieldTypes()
			f2 := sf[x.Choose(len(sf))]
			t2 := tags[x.Choose(len(tags))]
			f1 := ft0[x.Choose(2)]
			t1 := []string{"", ",omitempty", "-"}[x.Choose(3)]
			if x.Bool() {
				mkStruct(x, "struct2-seeds", []gen.FieldType{f1, f2}, []string{t1, t2}, 3)
			} else {
				mkStruct(x, "struct2-seeds", []gen.FieldType{f2, f1}, []string{t2, t1}, 3)
			}
		}},
		{Name: "plain", Arity: []int{len(ft1)}, Body: func(x *engine.Exec) {
			ft := ft1[x.Choose(len(ft1))]
			wrap := x.Choose(5)
			t := ft.T
			name := ft.Name
			switch wrap {
			case 1:
				t, name = reflect.SliceOf(t), "[]"+name
			case 2:
				t, name = reflect.MapOf(reflect.TypeOf(""), t), "map[string]"+name
			case 3:
				t, name = reflect.PtrTo(t), "*"+name
			case 4:
				t, name = reflect.TypeOf((*interface{})(nil)).Elem(), "interface{"+name+"}"
			}
			var vals []reflect.Value
			if wrap == 4 {
				for _, ev := range gen.Values(ft.T, 0) {
					r := reflect.New(t).Elem()
					r.Set(ev)
					vals = append(vals, r)
				}
			} else {
				vals = gen.Values(t, 0)
			}
			v := reflect.New(t).Elem()
			v.Set(vals[x.Choose(len(vals))])
			run(x, &GoCase{T: t, V: v, Desc: name, Class: "plain:" + kindClass(t), Fam: "plain"})
		}},
		{Name: "seeds", Arity: []int{len(sd)}, Body: func(x *engine.Exec) {
			s := sd[x.Choose(len(sd))]
			val := s.vals[x.Choose(len(s.vals))]
			var t reflect.Type
			var v reflect.Value
			if val == nil {
				t = reflect.TypeOf((*interface{})(nil)).Elem()
				v = reflect.New(t).Elem()
			} else {
				t = reflect.TypeOf(val)
				v = reflect.New(t).Elem()
				v.Set(reflect.ValueOf(val))
			}
			run(x, &GoCase{T: t, V: v, Desc: fmt.Sprintf("%s:%v", s.name, t), Class: "seed:" + s.name, Fam: "seeds", Opts: s.opts, Custom: s.custom})
		}},
		{Name: "struct-wide", Arity: []int{25}, Body: func(x *engine.Exec) {
			// field-count thresholds: 0..24 fields (small-struct fast paths, table sizes), three tag layouts, two value patterns
			n := x.Choose(25)
			layout := x.Choose(3)
			pattern := x.Choose(2)
			var fts []gen.FieldType
			var tg []string
			for i := 0; i < n; i++ {
				fts = append(fts, ft0[i%4])
				switch layout {
				case 0:
					tg = append(tg, "")
				case 1:
					tg = append(tg, fmt.Sprintf("f%d", i))
				default:
					tg = append(tg, []string{fmt.Sprintf("g%d,omitempty", i), "", "-"}[i%3])
				}
			}
			spec := wideSpec{fts, tg}
			t := spec.Build()
			v := reflect.New(t).Elem()
			for i := 0; i < n; i++ {
				if pattern == 1 && i%2 == 1 {
					continue
				}
				switch i % 4 {
				case 0:
					v.Field(i).SetInt(int64(i + 1))
				case 1:
					v.Field(i).SetString(fmt.Sprintf("s%d", i))
				case 2:
					v.Field(i).SetBool(true)
				default:
					v.Field(i).SetFloat(float64(i) + 0.5)
				}
			}
			run(x, &GoCase{T: t, V: v, Desc: spec.String(), Class: fmt.Sprintf("struct-wide:%d-fields", n), Fam: "struct-wide"})
		}},
		{Name: "inline-nest", Arity: []int{2, 3, 2}, Body: func(x *engine.Exec) {
			// Outer{[A int]; Mid inline{[B string]; Inner inline{C int; D string}; [E int]}; [F int]}: two levels of
			// inlining with the inlined parts at zero and non-zero offsets, by value, behind a pointer or as a map
			hasA := x.Bool()
			midKind := x.Choose(3) // value, pointer, pointer (nil)
			hasB := x.Bool()
			innerKind := x.Choose(4) // struct, *struct, nil *struct, map[string]int
			hasE := x.Bool()
			hasF := x.Bool()
			tInt, tStr := reflect.TypeOf(0), reflect.TypeOf("")
			inner := reflect.StructOf([]reflect.StructField{{Name: "C", Type: tInt}, {Name: "D", Type: tStr, Tag: `struct:"dd"`}})
			var innerT reflect.Type
			switch innerKind {
			case 0:
				innerT = inner
			case 1, 2:
				innerT = reflect.PtrTo(inner)
			default:
				innerT = reflect.MapOf(tStr, tInt)
			}
			var mf []reflect.StructField
			if hasB {
				mf = append(mf, reflect.StructField{Name: "B", Type: tStr})
			}
			mf = append(mf, reflect.StructField{Name: "In", Type: innerT, Tag: `struct:",inline"`})
			if hasE {
				mf = append(mf, reflect.StructField{Name: "E", Type: tInt})
			}
			mid := reflect.StructOf(mf)
			midT := mid
			if midKind > 0 {
				midT = reflect.PtrTo(mid)
			}
			var of []reflect.StructField
			if hasA {
				of = append(of, reflect.StructField{Name: "A", Type: tInt})
			}
			of = append(of, reflect.StructField{Name: "Mid", Type: midT, Tag: `struct:",squash"`})
			if hasF {
				of = append(of, reflect.StructField{Name: "F", Type: tInt})
			}
			t := reflect.StructOf(of)
			v := reflect.New(t).Elem()
			if hasA {
				v.FieldByName("A").SetInt(1)
			}
			if hasF {
				v.FieldByName("F").SetInt(6)
			}
			mv := v.FieldByName("Mid")
			if midKind == 1 {
				mv.Set(reflect.New(mid))
			}
			if midKind != 2 {
				if mv.Kind() == reflect.Ptr {
					mv = mv.Elem()
				}
				if hasB {
					mv.FieldByName("B").SetString("b2")
				}
				if hasE {
					mv.FieldByName("E").SetInt(5)
				}
				iv := mv.FieldByName("In")
				switch innerKind {
				case 1:
					iv.Set(reflect.New(inner))
					iv = iv.Elem()
					fallthrough
				case 0:
					iv.FieldByName("C").SetInt(3)
					iv.FieldByName("D").SetString("d4")
				case 3:
					iv.Set(reflect.ValueOf(map[string]int{"c": 3, "m": 4}))
				}
			}
			desc := fmt.Sprintf("inline-nest{A:%v Mid:%d{B:%v In:%d E:%v} F:%v}", hasA, midKind, hasB, innerKind, hasE, hasF)
			run(x, &GoCase{T: t, V: v, Desc: desc + " " + t.String(), Class: "inline-nest", Fam: "inline-nest"})
		}},
		{Name: "scalar-containers", Arity: []int{len(scalarish), 7}, Body: func(x *engine.Exec) {
			// every primitive kind (built-in and named) and interface{} x {T, []T, map[string]T, *T, [2]T, [][]T, map[string][]T} as a
			// struct field x {no tag, omitempty, inline}: the per-kind container folders/unfolders selected by reflection
			base := scalarish[x.Choose(len(scalarish))]
			wrap := x.Choose(7)
			t, name := base.T, base.Name
			switch wrap {
			case 1:
				t, name = reflect.SliceOf(t), "[]"+name
			case 2:
				t, name = reflect.MapOf(reflect.TypeOf(""), t), "map[string]"+name
			case 3:
				t, name = reflect.PtrTo(t), "*"+name
			case 4:
				t, name = reflect.ArrayOf(2, t), "[2]"+name
			case 5:
				t, name = reflect.SliceOf(reflect.SliceOf(t)), "[][]"+name
			case 6:
				t, name = reflect.MapOf(reflect.TypeOf(""), reflect.SliceOf(t)), "map[string][]"+name
			}
			tg := []string{"", ",omitempty", ",inline"}[x.Choose(3)]
			if x.Bool() {
				mkStruct(x, "scalar-containers", []gen.FieldType{{Name: name, T: t}}, []string{tg}, 4)
			} else {
				// at a non-zero offset, followed by another field
				mkStruct(x, "scalar-containers", []gen.FieldType{ft0[1], {Name: name, T: t}, ft0[0]}, []string{"", tg, "z"}, 3)
			}
		}},
		{Name: "sizes", Arity: []int{6}, Body: func(x *engine.Exec) {
			// container and string sizes 0..33 (small-size fast paths, growth steps of scratch buffers)
			kind := x.Choose(6)
			n := x.Choose(34)
			var val interface{}
			switch kind {
			case 0:
				s := make([]int, n)
				for i := range s {
					s[i] = i - 3
				}
				val = s
			case 1:
				s := make([]interface{}, n)
				for i := range s {
					s[i] = []interface{}{i, "x", nil}[i%3]
				}
				val = s
			case 2:
				m := map[string]int{}
				for i := 0; i < n; i++ {
					m[fmt.Sprintf("k%d", i)] = i
				}
				val = m
			case 3:
				m := map[string]interface{}{}
				for i := 0; i < n; i++ {
					m[fmt.Sprintf("k%d", i)] = []interface{}{i, "x", []interface{}{}}[i%3]
				}
				val = m
			case 4:
				val = strings.Repeat("a\u00e9", n*3)
			default:
				s := make([]string, n)
				for i := range s {
					s[i] = strings.Repeat("z", i)
				}
				val = s
			}
			t := reflect.TypeOf(val)
			v := reflect.New(t).Elem()
			v.Set(reflect.ValueOf(val))
			run(x, &GoCase{T: t, V: v, Desc: fmt.Sprintf("%v(size %d)", t, n), Class: "sizes:" + kindClass(t), Fam: "sizes"})
		}},
	}
	if tier == "thorough" {
		red := ft0[:8]
		rtags := []string{"", "n", ",omitempty", ",inline"}
		fams = append(fams, engine.Family{Name: "struct3", Arity: []int{len(red), len(rtags), len(red)}, Body: func(x *engine.Exec) {
			var fts []gen.FieldType
			var tg []string
			for i := 0; i < 3; i++ {
				fts = append(fts, red[x.Choose(len(red))])
				tg = append(tg, rtags[x.Choose(len(rtags))])
			}
			mkStruct(x, "struct3", fts, tg, 2)
		}})
	}
	return fams
}

func kindClass(t reflect.Type) string { return kindClassD(t, 0) }

func kindClassD(t reflect.Type, depth int) string {
	if depth > 6 {
		return "rec" // self-referential container type
	}
	kindClass := func(t reflect.Type) string { return kindClassD(t, depth+1) }
	switch t.Kind() {
	case reflect.Ptr:
		return "ptr-" + kindClass(t.Elem())
	case reflect.Slice:
		return "slice-" + kindClass(t.Elem())
	case reflect.Array:
		return "array-" + kindClass(t.Elem())
	case reflect.Map:
		return "map-" + kindClass(t.Elem())
	case reflect.Struct:
		return "struct"
	case reflect.Interface:
		return "interface"
	case reflect.String:
		return "string"
	case reflect.Bool:
		return "bool"
	case reflect.Float32, reflect.Float64:
		return "float"
	case reflect.Int, reflect.Int8, reflect.Int16, reflect.Int32, reflect.Int64:
		return "int"
	case reflect.Uint, reflect.Uint8, reflect.Uint16, reflect.Uint32, reflect.Uint64:
		return "uint"
	}
	return t.Kind().String()
}

func tagClass(tag string) string {
	name, omit, omitEmpty, inline := model.ParseTag(tag)
	switch {
	case tag == "":
		return ""
	case omit:
		return "[omit]"
	case inline:
		return "[inline]"
	case omitEmpty:
		return "[omitempty]"
	case name != "":
		return "[name]"
	}
	return "[other]"
}

// tagSyntax are further spellings of the tag (one-field structs only): bare names that spell an option
// keyword, surrounding blanks, empty parts, several options, an option after "-", unknown options.
var tagSyntax = []string{"omit", "omitempty", "inline", "squash", " name ", "name, omitempty", ",omitempty,omit", "-,omitempty", "name,", ",", "name,inline", ",omitempty,inline", "-x", ",unknown", ", inline ", "omit,omitempty"}

// deepGeneric nests n containers (kind 0 arrays, 1 objects, 2 alternating) around a leaf, with a sibling after the deep child at every level.
func deepGeneric(n, kind int) interface{} {
	var v interface{} = "leaf"
	for i := n - 1; i >= 0; i-- {
		if kind == 0 || (kind == 2 && i%2 == 0) {
			v = []interface{}{v, i}
		} else {
			v = map[string]interface{}{"d": v, "s": i}
		}
	}
	return v
}

func deepTyped(n int) interface{} {
	t := reflect.TypeOf(0)
	v := reflect.ValueOf(7)
	for i := 0; i < n; i++ {
		t = reflect.SliceOf(t)
		s := reflect.MakeSlice(t, 0, 2)
		s = reflect.Append(s, v)
		if i > 0 {
			s = reflect.Append(s, reflect.Zero(t.Elem()))
		}
		v = s
	}
	return v.Interface()
}

// wideSpec is a StructSpec whose field names are F0, F1, ... (more than 26 fields possible).
type wideSpec struct {
	Fields []gen.FieldType
	Tags   []string
}

func (s wideSpec) String() string {
	var sb strings.Builder
	sb.WriteString("struct{")
	for i, f := range s.Fields {
		if i > 0 {
			sb.WriteString("; ")
		}
		fmt.Fprintf(&sb, "F%d %s", i, f.Name)
		if s.Tags[i] != "" {
			fmt.Fprintf(&sb, " `struct:%q`", s.Tags[i])
		}
	}
	sb.WriteString("}")
	return sb.String()
}

func (s wideSpec) Build() reflect.Type {
	var fs []reflect.StructField
	for i, f := range s.Fields {
		sf := reflect.StructField{Name: fmt.Sprintf("F%d", i), Type: f.T}
		if s.Tags[i] != "" {
			sf.Tag = reflect.StructTag(fmt.Sprintf(`struct:%q`, s.Tags[i]))
		}
		fs = append(fs, sf)
	}
	return reflect.StructOf(fs)
}
