package props

import (
	"fmt"
	"math"
	"reflect"

	structform "github.com/elastic/go-structform"
	"github.com/elastic/go-structform/gotype"

	"verif/mc/engine"
	"verif/mc/gen"
	"verif/mc/model"
)

// C13Rec is a target implementing gotype.Expander: its UnfoldState logs every event it receives.
type C13Rec struct{ Log []string }

func (r *C13Rec) Expand() gotype.UnfoldState { return &c13State{log: &r.Log} }

// C13Plain gets its UnfoldState through a registered stateful unfolder.
type C13Plain struct{ Log []string }

// C13Prim is filled by a registered primitive unfolder from an int64.
type C13Prim struct {
	V   int64
	Set bool
}

// C13Proc is filled by a registered processing unfolder (unfolds into a temporary cell first).
type C13Proc struct{ Sum int64 }

type c13State struct {
	gotype.BaseUnfoldState
	log   *[]string
	depth int
}

func (s *c13State) add(ctx gotype.UnfoldCtx, e string) error {
	*s.log = append(*s.log, e)
	if s.depth == 0 {
		ctx.Done()
	}
	return nil
}
func (s *c13State) OnNil(ctx gotype.UnfoldCtx) error { return s.add(ctx, "nil") }
func (s *c13State) OnBool(ctx gotype.UnfoldCtx, b bool) error {
	return s.add(ctx, fmt.Sprint("bool:", b))
}
func (s *c13State) OnString(ctx gotype.UnfoldCtx, v string) error { return s.add(ctx, "str:"+v) }
func (s *c13State) OnInt(ctx gotype.UnfoldCtx, i int64) error {
	return s.add(ctx, fmt.Sprint("int:", i))
}
func (s *c13State) OnUint(ctx gotype.UnfoldCtx, u uint64) error {
	return s.add(ctx, fmt.Sprint("uint:", u))
}
func (s *c13State) OnFloat(ctx gotype.UnfoldCtx, f float64) error {
	return s.add(ctx, fmt.Sprintf("float:%#x", math.Float64bits(f)))
}
func (s *c13State) OnArrayStart(ctx gotype.UnfoldCtx, l int, bt structform.BaseType) error {
	*s.log = append(*s.log, "[")
	s.depth++
	return nil
}
func (s *c13State) OnArrayFinished(ctx gotype.UnfoldCtx) error {
	s.depth--
	return s.add(ctx, "]")
}
func (s *c13State) OnObjectStart(ctx gotype.UnfoldCtx, l int, bt structform.BaseType) error {
	*s.log = append(*s.log, "{")
	s.depth++
	return nil
}
func (s *c13State) OnObjectFinished(ctx gotype.UnfoldCtx) error {
	s.depth--
	return s.add(ctx, "}")
}
func (s *c13State) OnKey(ctx gotype.UnfoldCtx, k string) error {
	*s.log = append(*s.log, "key:"+k)
	return nil
}

// c13ExpectedLog is what a custom state must receive for a stream: every number with its exact value.
func c13ExpectedLog(evs []model.Event) []string {
	var out []string
	for _, e := range model.Expand(evs) {
		switch {
		case e.K == model.KNil:
			out = append(out, "nil")
		case e.K == model.KBool:
			out = append(out, fmt.Sprint("bool:", e.B))
		case e.K == model.KString:
			out = append(out, "str:"+e.S)
		case e.K == model.KKey:
			out = append(out, "key:"+e.S)
		case e.K.IsSigned():
			out = append(out, fmt.Sprint("int:", e.I))
		case e.K.IsInt():
			out = append(out, fmt.Sprint("uint:", e.U))
		case e.K == model.KFloat32:
			out = append(out, fmt.Sprintf("float:%#x", math.Float64bits(float64(math.Float32frombits(uint32(e.U))))))
		case e.K == model.KFloat64:
			out = append(out, fmt.Sprintf("float:%#x", e.U))
		case e.K == model.KArrStart:
			out = append(out, "[")
		case e.K == model.KArrEnd:
			out = append(out, "]")
		case e.K == model.KObjStart:
			out = append(out, "{")
		case e.K == model.KObjEnd:
			out = append(out, "}")
		}
	}
	return out
}

// c13PrimOf is filled by a registered primitive unfolder taking a T.
type c13PrimOf[T any] struct {
	V   T
	Set bool
	N   int
}

func c13PrimFn[T any]() interface{} {
	return func(to *c13PrimOf[T], v T) error { to.V, to.Set, to.N = v, true, to.N+1; return nil }
}

type c13PrimCase struct {
	name string
	t    reflect.Type // c13PrimOf[T]
	fn   interface{}
}

func c13PrimEntry[T any](name string) c13PrimCase {
	return c13PrimCase{name, reflect.TypeOf(c13PrimOf[T]{}), c13PrimFn[T]()}
}

// c13PrimitiveCross: a registered primitive unfolder for every primitive argument type x every scalar event: the callback
// receives exactly the stream's value whenever it fits the argument type.
func c13PrimitiveCross(tier string) engine.Family {
	cases := []c13PrimCase{c13PrimEntry[bool]("bool"), c13PrimEntry[string]("string"), c13PrimEntry[int]("int"), c13PrimEntry[int8]("int8"), c13PrimEntry[int16]("int16"),
		c13PrimEntry[int32]("int32"), c13PrimEntry[int64]("int64"), c13PrimEntry[uint]("uint"), c13PrimEntry[uint8]("uint8"), c13PrimEntry[uint16]("uint16"), c13PrimEntry[uint32]("uint32"),
		c13PrimEntry[uint64]("uint64"), c13PrimEntry[float32]("float32"), c13PrimEntry[float64]("float64")}
	var fns []interface{}
	for _, c := range cases {
		fns = append(fns, c.fn)
	}
	opts := []gotype.UnfoldOption{gotype.Unfolders(fns...)}
	nums := append(gen.IntEvents(), gen.FloatEvents()...)
	scalars := append([]model.Event{model.Nil(), model.Bool(true), model.Bool(false), model.StrRef("s"), model.Str(""), model.Str("by value")}, nums...)
	return engine.Family{Name: "custom-primitive-cross", Arity: []int{len(cases)}, Body: func(x *engine.Exec) {
		c := cases[x.Choose(len(cases))]
		ev := scalars[x.Choose(len(scalars))]
		shape := x.Choose(7)
		var target reflect.Value
		var evs []model.Event
		var cell func() reflect.Value
		deref := func(v reflect.Value) reflect.Value {
			if !v.IsValid() || v.IsNil() {
				return reflect.Value{}
			}
			return v.Elem()
		}
		switch shape {
		case 4: // elements behind pointers: the registered unfolder must get a newly allocated X, not the pointer slot
			target = reflect.New(reflect.SliceOf(reflect.PtrTo(c.t)))
			evs = []model.Event{model.ArrStart(2, 0), ev, ev, model.ArrEnd()}
			cell = func() reflect.Value {
				if target.Elem().Len() != 2 {
					return reflect.Value{}
				}
				return deref(target.Elem().Index(1))
			}
		case 5:
			target = reflect.New(reflect.MapOf(reflect.TypeOf(""), reflect.PtrTo(c.t)))
			evs = []model.Event{model.ObjStart(2, 0), model.KeyRef("j"), ev, model.KeyRef("k"), ev, model.ObjEnd()}
			cell = func() reflect.Value { return deref(target.Elem().MapIndex(reflect.ValueOf("k"))) }
		case 6:
			st := reflect.StructOf([]reflect.StructField{{Name: "L", Type: reflect.SliceOf(reflect.PtrTo(c.t)), Tag: `struct:"l"`}, {Name: "P", Type: reflect.PtrTo(c.t), Tag: `struct:"p"`}})
			target = reflect.New(st)
			evs = []model.Event{model.ObjStart(-1, 0), model.KeyRef("p"), ev, model.KeyRef("l"), model.ArrStart(-1, 0), ev, ev, ev, model.ArrEnd(), model.ObjEnd()}
			cell = func() reflect.Value {
				if target.Elem().Field(0).Len() != 3 || !deref(target.Elem().Field(1)).IsValid() {
					return reflect.Value{}
				}
				return deref(target.Elem().Field(0).Index(2))
			}
		case 0:
			target, evs = reflect.New(c.t), []model.Event{ev}
			cell = func() reflect.Value { return target.Elem() }
		case 1:
			st := reflect.StructOf([]reflect.StructField{{Name: "Z", Type: reflect.TypeOf(0), Tag: `struct:"zzz"`}, {Name: "P", Type: c.t, Tag: `struct:"p"`}, {Name: "A", Type: reflect.TypeOf(""), Tag: `struct:"a"`}})
			target = reflect.New(st)
			evs = []model.Event{model.ObjStart(-1, 0), model.KeyRef("p"), ev, model.Key("a"), model.StrRef("after"), model.ObjEnd()}
			cell = func() reflect.Value { return target.Elem().Field(1) }
		case 2:
			target = reflect.New(reflect.SliceOf(c.t))
			evs = []model.Event{model.ArrStart(2, 0), ev, ev, model.ArrEnd()}
			cell = func() reflect.Value {
				if target.Elem().Len() != 2 {
					return reflect.Value{}
				}
				return target.Elem().Index(1)
			}
		default:
			target = reflect.New(reflect.MapOf(reflect.TypeOf(""), c.t))
			evs = []model.Event{model.ObjStart(1, 0), model.KeyRef("k"), ev, model.ObjEnd()}
			cell = func() reflect.Value {
				v := target.Elem().MapIndex(reflect.ValueOf("k"))
				return v
			}
		}
		desc := fmt.Sprintf("func(*X, %s) <- shape %d %s", c.name, shape, model.EventsString(evs))
		x.Case(desc, true)
		x.Sample(func() interface{} {
			return map[string]interface{}{"unfolder_argument": c.name, "events": model.EventsString(evs)}
		})
		// reference: does the stream's value fit the argument type, and which value is it
		sv, _ := model.ValueOf([]model.Event{ev})
		want := reflect.New(c.t.Field(0).Type).Elem()
		specified, why := model.RefUnfold(sv, want)
		res := unfoldCustom(x, target.Interface(), evs, opts)
		wit := map[string]interface{}{"unfolder_argument": c.name, "events": model.EventsString(evs), "err": errStr(res.Err), "specified": specified, "unspecified_because": why, "result": trunc(model.Dump(target.Elem().Interface()), 200)}
		class := "custom:primitive:" + c.name + "<-" + leafClass(ev)
		if res.Bad() {
			x.Violation("gotype.Unfolder(custom)", res.Symptom(), class, res.Panic+res.Where, wit)
			return
		}
		if !specified {
			x.Count("unspecified", 1)
			return
		}
		if res.Err != nil {
			x.Violation("gotype.Unfolder(custom)", "matching-target-refused", class, errStr(res.Err), wit)
			return
		}
		x.Count("custom_compared", 1)
		got := cell()
		if !got.IsValid() || !got.Field(1).Bool() {
			x.Violation("gotype.Unfolder(custom)", "wrong-value", class, "the registered primitive unfolder was not called", wit)
			return
		}
		if ok, path := model.SameGo(want, got.Field(0)); !ok {
			x.Violation("gotype.Unfolder(custom)", "wrong-value", class, "the registered primitive unfolder received a different value: "+path, wit)
			return
		}
		if got.Field(2).Int() != 1 {
			x.Violation("gotype.Unfolder(custom)", "wrong-value", class, fmt.Sprintf("the registered primitive unfolder was called %d times for one value", got.Field(2).Int()), wit)
		}
	}}
}

// c13ProcOf is filled by a registered processing unfolder whose temporary cell is a *T.
type c13ProcOf[T any] struct {
	Got   T
	Calls int
}

func c13ProcFn[T any]() interface{} {
	return func(to *c13ProcOf[T]) (interface{}, func(*c13ProcOf[T], interface{}) error) {
		return new(T), func(to *c13ProcOf[T], c interface{}) error {
			to.Got = *(c.(*T))
			to.Calls++
			return nil
		}
	}
}

func c13ProcEntry[T any](name string) c13PrimCase {
	return c13PrimCase{name, reflect.TypeOf(c13ProcOf[T]{}), c13ProcFn[T]()}
}

type c13ProcNested struct {
	K    string `struct:"k"`
	Keep int    `struct:"keep"`
}

// c13ProcessingCross: processing unfolders (the library unfolds into a temporary cell, then hands the cell to the user's
// function) for cells of many types x every scalar event kind, bare and nested; the cell must hold exactly the stream's
// value when the user's function is called, which must happen exactly once per value. A cell type that cannot be
// unfolded into (chan) must lead to errors, never a crash.
func c13ProcessingCross(tier string) engine.Family {
	cases := []c13PrimCase{c13ProcEntry[interface{}]("interface{}"), c13ProcEntry[string]("string"), c13ProcEntry[bool]("bool"), c13ProcEntry[float64]("float64"), c13ProcEntry[int8]("int8"),
		c13ProcEntry[uint64]("uint64"), c13ProcEntry[[]interface{}]("[]interface{}"), c13ProcEntry[map[string]interface{}]("map[string]interface{}"), c13ProcEntry[map[string]int]("map[string]int"),
		c13ProcEntry[[]string]("[]string"), c13ProcEntry[c13ProcNested]("struct"), c13ProcEntry[*c13ProcNested]("*struct"), c13ProcEntry[chan int]("chan int"), c13ProcEntry[[]float32]("[]float32")}
	var fns []interface{}
	for _, c := range cases {
		fns = append(fns, c.fn)
	}
	opts := []gotype.UnfoldOption{gotype.Unfolders(fns...)}
	leaves := []model.Event{model.SInt(model.KInt8, -1), model.Str("a"), model.StrRef("r"), model.Nil(), model.Bool(true), model.F64(0x3fe0000000000000),
		model.UInt(model.KUint64, 1<<64-1), model.SInt(model.KInt, -70000), model.F32(0x3dcccccd), model.UInt(model.KByte, 200),
		model.SInt(model.KInt16, 300), model.SInt(model.KInt32, -1<<31), model.SInt(model.KInt64, 1<<62), model.UInt(model.KUint8, 255), model.UInt(model.KUint16, 1), model.UInt(model.KUint32, 1<<32-1), model.UInt(model.KUint, 7)}
	return engine.Family{Name: "custom-processing-cross", Arity: []int{len(cases), len(leaves)}, Body: func(x *engine.Exec) {
		c := cases[x.Choose(len(cases))]
		ev := leaves[x.Choose(len(leaves))]
		var payload []model.Event
		switch x.Choose(6) {
		case 0:
			payload = []model.Event{ev}
		case 1:
			payload = []model.Event{model.ArrStart(2, 0), ev, ev, model.ArrEnd()}
		case 2:
			payload = []model.Event{model.ObjStart(-1, 0), model.KeyRef("k"), ev, model.ObjEnd()}
		case 3:
			payload = []model.Event{model.ArrStart(-1, 0), model.ArrStart(1, 0), ev, model.ArrEnd(), model.ObjStart(0, 0), model.ObjEnd(), model.ArrEnd()}
		case 4:
			payload = []model.Event{model.ObjStart(2, 0), model.Key("k"), model.ObjStart(1, 0), model.KeyRef("k"), ev, model.ObjEnd(), model.Key("keep"), model.SInt(model.KInt8, 5), model.ObjEnd()}
		default:
			payload = []model.Event{model.ArrStart(0, 0), model.ArrEnd()}
		}
		shape := x.Choose(4)
		var target reflect.Value
		var evs []model.Event
		var cell func() reflect.Value
		switch shape {
		case 0:
			target, evs = reflect.New(c.t), payload
			cell = func() reflect.Value { return target.Elem() }
		case 1:
			st := reflect.StructOf([]reflect.StructField{{Name: "Z", Type: reflect.TypeOf(0), Tag: `struct:"zzz"`}, {Name: "P", Type: c.t, Tag: `struct:"p"`}, {Name: "A", Type: reflect.TypeOf(""), Tag: `struct:"a"`}})
			target = reflect.New(st)
			evs = append(append([]model.Event{model.ObjStart(-1, 0), model.KeyRef("p")}, payload...), model.Key("a"), model.StrRef("after"), model.ObjEnd())
			cell = func() reflect.Value {
				if target.Elem().Field(2).String() != "after" {
					return reflect.Value{}
				}
				return target.Elem().Field(1)
			}
		case 2:
			target = reflect.New(reflect.SliceOf(c.t))
			evs = append(append(append([]model.Event{model.ArrStart(2, 0)}, payload...), payload...), model.ArrEnd())
			cell = func() reflect.Value {
				if target.Elem().Len() != 2 {
					return reflect.Value{}
				}
				return target.Elem().Index(1)
			}
		default:
			target = reflect.New(reflect.MapOf(reflect.TypeOf(""), c.t))
			evs = append(append([]model.Event{model.ObjStart(1, 0), model.KeyRef("k")}, payload...), model.ObjEnd())
			cell = func() reflect.Value { return target.Elem().MapIndex(reflect.ValueOf("k")) }
		}
		desc := fmt.Sprintf("processing cell *%s <- shape %d %s", c.name, shape, model.EventsString(evs))
		x.Case(desc, true)
		x.Sample(func() interface{} {
			return map[string]interface{}{"processing_cell": "*" + c.name, "events": model.EventsString(evs)}
		})
		sv, err := model.ValueOf(payload)
		if err != nil {
			engine.Fail("ill-formed generated stream: %v", err)
		}
		want := reflect.New(c.t.Field(0).Type).Elem()
		specified, why := model.RefUnfold(sv, want)
		if sv.K == model.VNull && (shape == 2 || shape == 3) {
			specified, why = false, "a null element is stored by the container itself"
		}
		res := unfoldCustom(x, target.Interface(), evs, opts)
		wit := map[string]interface{}{"processing_cell": "*" + c.name, "events": model.EventsString(evs), "err": errStr(res.Err), "specified": specified, "unspecified_because": why, "result": trunc(model.Dump(target.Elem().Interface()), 200)}
		class := "custom:processing:" + c.name
		if res.Bad() {
			x.Violation("gotype.Unfolder(custom)", res.Symptom(), class, res.Panic+res.Where, wit)
			return
		}
		if !specified {
			x.Count("unspecified", 1)
			return
		}
		if res.Err != nil {
			x.Violation("gotype.Unfolder(custom)", "matching-target-refused", class, errStr(res.Err), wit)
			return
		}
		x.Count("custom_compared", 1)
		got := cell()
		if !got.IsValid() || got.Field(1).Int() != 1 {
			n := int64(-1)
			if got.IsValid() {
				n = got.Field(1).Int()
			}
			x.Violation("gotype.Unfolder(custom)", "wrong-value", class, fmt.Sprintf("the processing function was called %d times for one value (or the surrounding value is incomplete)", n), wit)
			return
		}
		if ok, path := model.SameGo(want, got.Field(0)); !ok {
			x.Violation("gotype.Unfolder(custom)", "wrong-value", class, "the cell handed to the processing function differs from the stream's value: "+path, wit)
		}
	}}
}

func c13CustomFamily(tier string) engine.Family {
	nums := append(gen.IntEvents(), gen.FloatEvents()...)
	scalars := append([]model.Event{model.Nil(), model.Bool(true), model.StrRef("s"), model.Str("")}, nums...)
	opts := []gotype.UnfoldOption{gotype.Unfolders(
		func(to *C13Plain) gotype.UnfoldState { return &c13State{log: &to.Log} },
		func(to *C13Prim, v int64) error { to.V, to.Set = v, true; return nil },
		func(to *C13Proc) (interface{}, func(*C13Proc, interface{}) error) {
			cell := &[]int64{}
			return cell, func(to *C13Proc, c interface{}) error {
				for _, v := range *(c.(*[]int64)) {
					to.Sum += v
				}
				return nil
			}
		},
	)}
	type holder struct {
		R C13Rec            `struct:"r"`
		P C13Plain          `struct:"p"`
		L []C13Rec          `struct:"l"`
		M map[string]C13Rec `struct:"m"`
		Z int               `struct:"z"`
	}
	return engine.Family{Name: "custom-unfolders", Arity: []int{6}, Body: func(x *engine.Exec) {
		shape := x.Choose(6)
		ev := scalars[x.Choose(len(scalars))]
		var payload []model.Event
		switch x.Choose(3) {
		case 0:
			payload = []model.Event{ev}
		case 1:
			payload = []model.Event{model.ArrStart(2, 0), ev, model.ArrStart(-1, 0), ev, model.ArrEnd(), model.ArrEnd()}
		default:
			payload = []model.Event{model.ObjStart(-1, 0), model.KeyRef("k"), ev, model.Key("o"), model.ObjStart(0, 0), model.ObjEnd(), model.ObjEnd()}
		}
		want := c13ExpectedLog(payload)
		var target interface{}
		var evs []model.Event
		var getLogs func() [][]string
		switch shape {
		case 0:
			t := &C13Rec{}
			target, evs, getLogs = t, payload, func() [][]string { return [][]string{t.Log} }
		case 1:
			t := &C13Plain{}
			target, evs, getLogs = t, payload, func() [][]string { return [][]string{t.Log} }
		case 2:
			t := &holder{Z: 77}
			target = t
			evs = append(append(append([]model.Event{model.ObjStart(-1, 0), model.Key("r")}, payload...), model.KeyRef("p")), payload...)
			evs = append(evs, model.Key("unknown"), model.StrRef("skip"), model.ObjEnd())
			getLogs = func() [][]string { return [][]string{t.R.Log, t.P.Log} }
		case 3:
			t := &holder{}
			target = t
			evs = append(append(append([]model.Event{model.ObjStart(1, 0), model.Key("l"), model.ArrStart(2, 0)}, payload...), payload...), model.ArrEnd(), model.ObjEnd())
			getLogs = func() [][]string {
				var l [][]string
				for _, r := range t.L {
					l = append(l, r.Log)
				}
				if len(l) != 2 {
					l = append(l, []string{fmt.Sprintf("<%d elements>", len(t.L))})
				}
				return l
			}
		case 4:
			t := &holder{}
			target = t
			evs = append(append([]model.Event{model.ObjStart(1, 0), model.Key("m"), model.ObjStart(-1, 0), model.KeyRef("a")}, payload...), model.ObjEnd(), model.ObjEnd())
			getLogs = func() [][]string { return [][]string{t.M["a"].Log} }
		default:
			// primitive and processing unfolders: integers that fit int64
			if !(ev.K.IsInt() && (ev.K.IsSigned() || ev.U <= math.MaxInt64)) || len(payload) != 1 {
				return
			}
			v := ev.I
			if !ev.K.IsSigned() {
				v = int64(ev.U)
			}
			tp, tc := &C13Prim{}, &C13Proc{}
			r1 := unfoldCustom(x, tp, []model.Event{ev}, opts)
			r2 := unfoldCustom(x, tc, []model.Event{model.ArrStart(2, 0), ev, model.SInt(model.KInt8, 1), model.ArrEnd()}, opts)
			x.Case(fmt.Sprintf("prim|%v", ev), true)
			x.Count("custom_compared", 1)
			if r1.Bad() || r1.Err != nil || !tp.Set || tp.V != v {
				x.Violation("gotype.Unfolder(custom)", "wrong-value", "custom:primitive", fmt.Sprintf("primitive unfolder got %d (set=%v, err %v %s) for %v", tp.V, tp.Set, r1.Err, r1.Panic, ev), map[string]interface{}{"event": ev.String()})
			}
			if v < math.MaxInt64 && v > math.MinInt64+1 {
				if r2.Bad() || r2.Err != nil || tc.Sum != v+1 {
					x.Violation("gotype.Unfolder(custom)", "wrong-value", "custom:processing", fmt.Sprintf("processing unfolder summed %d (err %v %s) for [%v,1]", tc.Sum, r2.Err, r2.Panic, ev), map[string]interface{}{"event": ev.String()})
				}
			}
			return
		}
		if ev.K == model.KNil && len(payload) == 1 && (shape == 3 || shape == 4) {
			// a null slice element / map value is stored as the zero value by the container itself,
			// without consulting the element's custom state: the statement makes no promise here
			return
		}
		x.Case(fmt.Sprintf("custom|%d|%s", shape, model.EventsString(evs)), true)
		x.Sample(func() interface{} {
			return map[string]interface{}{"target": fmt.Sprintf("%T", target), "events": model.EventsString(evs)}
		})
		res := unfoldCustom(x, target, evs, opts)
		x.Count("custom_compared", 1)
		wit := map[string]interface{}{"target": fmt.Sprintf("%T", target), "events": model.EventsString(evs), "err": errStr(res.Err), "expected_log": want}
		if res.Bad() {
			x.Violation("gotype.Unfolder(custom)", res.Symptom(), "custom:state", res.Panic+res.Where, wit)
			return
		}
		if res.Err != nil {
			x.Violation("gotype.Unfolder(custom)", "matching-target-refused", "custom:state", errStr(res.Err), wit)
			return
		}
		for _, l := range getLogs() {
			if !reflect.DeepEqual(l, want) && !(len(l) == 0 && len(want) == 0) {
				wit["received_log"] = l
				x.Violation("gotype.Unfolder(custom)", "wrong-value", "custom:state:"+leafClass(ev), fmt.Sprintf("custom state received %v, stream says %v", l, want), wit)
				return
			}
		}
		if h, ok := target.(*holder); ok && shape == 2 && h.Z != 77 {
			x.Violation("gotype.Unfolder(custom)", "wrong-value", "custom:state", "untouched field changed", wit)
		}
	}}
}

func unfoldCustom(x *engine.Exec, target interface{}, evs []model.Event, opts []gotype.UnfoldOption) Result {
	return guard(int64(100000+400*streamSize(evs)), func() error {
		u, err := gotype.NewUnfolder(target, opts...)
		if err != nil {
			return fmt.Errorf("NewUnfolder: %w", err)
		}
		_, err = model.Drive(structform.EnsureExtVisitor(u), evs)
		return err
	})
}
