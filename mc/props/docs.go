package props

import (
	"bytes"
	"fmt"
	"strings"

	"verif/mc/engine"
	"verif/mc/gen"
	"verif/mc/model"
)

// DocCase is one enumerated wire document with the reference decoder's verdict.
type DocCase struct {
	Codec *Codec
	Doc   []byte
	Class string
	Fam   string
	Ref   model.Ref
}

func (c *DocCase) Desc() interface{} {
	m := map[string]interface{}{"codec": c.Codec.Name, "hex": hexs(c.Doc), "ref": c.Ref.Status.String()}
	if c.Codec == codecJSON || c.Codec == codecUBJSON {
		m["text"] = trunc(fmt.Sprintf("%q", c.Doc), 200)
	}
	return m
}

func refOf(cd *Codec, b []byte) model.Ref {
	switch cd {
	case codecJSON:
		return model.RefJSON(b)
	case codecUBJSON:
		return model.RefUBJSON(b)
	}
	return model.RefCBOR(b)
}

type docBody func(x *engine.Exec, c *DocCase)

func mkDoc(x *engine.Exec, cd *Codec, fam, class string, doc []byte, want model.Status, run docBody) {
	ref := refOf(cd, doc)
	if want >= 0 && ref.Status != want {
		engine.Fail("generator/reference disagreement (%s %s): %x is %v (%s), generator meant %v", cd.Name, fam, doc, ref.Status, ref.Feature, want)
	}
	if want == model.Complete && len(ref.Values) != 1 {
		engine.Fail("generator/reference disagreement (%s %s): %x holds %d values", cd.Name, fam, doc, len(ref.Values))
	}
	run(x, &DocCase{Codec: cd, Doc: doc, Class: class, Fam: fam, Ref: ref})
}

const anyStatus = model.Status(-1)

// docScope bounds the document languages.
type docScope struct {
	Nodes     int  // max nodes of tree documents
	UBJNodes  int  // max nodes of UBJSON tree documents (0: Nodes)
	UBJDeep   bool // add the 5-node UBJSON trees over a reduced type alphabet
	UBJTypes  int  // element types used for typed UBJSON containers
	JSONTok   int  // max tokens of JSON structure sequences
	JSONAtoms int  // max atoms per JSON string literal
	NumStride int  // take every NumStride-th number literal
	Ctx       int  // number of contexts scalars are embedded in (0 = all)
	ScStride  int  // take every ScStride-th scalar (0/1 = all)
}

func strideOf[T any](all []T, k int) []T {
	if k <= 1 {
		return all
	}
	var out []T
	for i := 0; i < len(all); i += k {
		out = append(out, all[i])
	}
	return out
}

func (sc docScope) ctx(all int) int {
	if sc.Ctx > 0 && sc.Ctx < all {
		return sc.Ctx
	}
	return all
}

func conformScope(tier string) docScope {
	return docScope{Nodes: tierPick(tier, 4, 5), UBJNodes: 4, UBJTypes: tierPick(tier, 8, 15), JSONTok: tierPick(tier, 6, 8), JSONAtoms: tierPick(tier, 2, 3), NumStride: 1, UBJDeep: tier == "thorough"}
}

// cborDocFamilies: the CBOR document language of C05 (DESIGN §5).
func cborDocFamilies(sc docScope, run docBody) []engine.Family {
	scalars := strideOf(gen.CBORScalars(), sc.ScStride)
	unsup := gen.CBORUnsupported()
	keys := gen.CBORNonTextKeys()
	maxNodes := sc.Nodes
	return []engine.Family{
		{Name: "cbor-scalars", Arity: []int{gen.NumCBORContexts}, Body: func(x *engine.Exec) {
			ctx := x.Choose(sc.ctx(gen.NumCBORContexts))
			s := scalars[x.Choose(len(scalars))]
			mkDoc(x, codecCBOR, "cbor-scalars", s.Class, gen.CBORContext(ctx, s.B), model.Complete, run)
		}},
		{Name: "cbor-trees", Arity: []int{gen.CBORTreeRootArity(), 2}, Body: func(x *engine.Exec) {
			doc := gen.CBORTree(x, maxNodes)
			mkDoc(x, codecCBOR, "cbor-trees", "tree", doc, model.Complete, run)
		}},
		{Name: "cbor-unsupported", Body: func(x *engine.Exec) {
			ctx := x.Choose(gen.NumCBORContexts + 2)
			var doc []byte
			var cl string
			if ctx < gen.NumCBORContexts {
				s := unsup[x.Choose(len(unsup))]
				doc, cl = gen.CBORContext(ctx, s.B), s.Class
			} else {
				k := keys[x.Choose(len(keys))]
				cl = k.Class
				if ctx == gen.NumCBORContexts {
					doc = append(append([]byte{0xA1}, k.B...), 0x01)
				} else {
					doc = append(append([]byte{0xBF, 0x61, 'a', 0x01}, k.B...), 0x01, 0xFF)
				}
			}
			mkDoc(x, codecCBOR, "cbor-unsupported", cl, doc, model.Unsupported, run)
		}},
		{Name: "cbor-break-lengths", Body: func(x *engine.Exec) {
			// lengths and payload bytes equal to the break byte 0xff inside definite and indefinite containers
			var doc []byte
			s255 := append([]byte{0x78, 0xff}, bytes.Repeat([]byte{'s'}, 255)...)
			b255 := append([]byte{0x58, 0xff}, bytes.Repeat([]byte{0xff}, 255)...)
			switch x.Choose(6) {
			case 0:
				doc = cat2([]byte{0x9f}, s255, []byte{0x18, 0xff, 0xff})
			case 1:
				doc = cat2([]byte{0xbf}, s255, b255, []byte{0xff})
			case 2:
				doc = cat2([]byte{0x9f}, b255, []byte{0x38, 0xff, 0xff})
			case 3:
				doc = append([]byte{0x98, 0xff}, bytes.Repeat([]byte{0x01}, 255)...)
			case 4:
				doc = cat2([]byte{0xa1}, s255, []byte{0x19, 0xff, 0xff})
			default:
				doc = cat2([]byte{0x82, 0x9f, 0x1a, 0xff, 0xff, 0xff, 0xff, 0xff, 0xfb, 0xff, 0xff, 0xff, 0xff, 0xff, 0xff, 0xff, 0xff})
			}
			mkDoc(x, codecCBOR, "cbor-break-lengths", "break-valued-bytes", doc, model.Complete, run)
		}},
		{Name: "cbor-deep", Body: func(x *engine.Exec) {
			n := []int{31, 32, 33, 61, 62, 63, 64, 65, 70}[x.Choose(9)]
			indef := x.Bool()
			var doc []byte
			for i := 0; i < n; i++ {
				if indef {
					doc = append(doc, 0x9F)
				} else {
					doc = append(doc, 0x81)
				}
			}
			// the innermost item: a small integer, or an item with an explicit length field (its own parser states on top of the nesting)
			switch x.Choose(4) {
			case 0:
				doc = append(doc, 0x01)
			case 1:
				doc = append(append(doc, 0x78, 24), bytes.Repeat([]byte{'t'}, 24)...)
			case 2:
				doc = append(append(doc, 0x98, 24), bytes.Repeat([]byte{0x01}, 24)...)
			default:
				doc = append(append(doc, 0xB8, 24), bytes.Repeat([]byte{0x61, 'k', 0xF6}, 24)...)
			}
			if indef {
				for i := 0; i < n; i++ {
					doc = append(doc, 0xFF)
				}
			}
			mkDoc(x, codecCBOR, "cbor-deep", "deep-nesting", doc, model.Complete, run)
		}},
		{Name: "cbor-deeper", Body: func(x *engine.Exec) {
			// beyond the second and third growth step of the parser's stacks, in every container form and mixed
			n := []int{66, 127, 128, 129, 130, 257}[x.Choose(6)]
			form := x.Choose(5) // definite arrays, indefinite arrays, definite maps, indefinite maps, cycling through all four
			var doc, tail []byte
			for i := 0; i < n; i++ {
				f := form
				if form == 4 {
					f = i % 4
				}
				switch f {
				case 0:
					doc = append(doc, 0x81)
				case 1:
					doc = append(doc, 0x9F)
					tail = append([]byte{0xFF}, tail...)
				case 2:
					doc = append(doc, 0xA1, 0x61, 'k')
				default:
					doc = append(doc, 0xBF, 0x61, 'k')
					tail = append([]byte{0xFF}, tail...)
				}
			}
			if form == 1 && x.Bool() {
				// one more element behind the deep child in every enclosing (indefinite) array
				var t2 []byte
				for range tail {
					t2 = append(t2, 0x02, 0xFF)
				}
				tail = t2
			}
			doc = append(append(doc, 0x01), tail...)
			mkDoc(x, codecCBOR, "cbor-deeper", "deep-nesting", doc, model.Complete, run)
		}},
	}
}

// ubjDocFamilies: the UBJSON document language of C06.
func ubjDocFamilies(sc docScope, run docBody) []engine.Family {
	scalars := strideOf(gen.UBJScalars(), sc.ScStride)
	maxNodes := sc.Nodes
	if sc.UBJNodes > 0 {
		maxNodes = sc.UBJNodes
	}
	nTypes := sc.UBJTypes
	return []engine.Family{
		{Name: "ubj-scalars", Arity: []int{gen.NumUBJContexts}, Body: func(x *engine.Exec) {
			ctx := x.Choose(sc.ctx(gen.NumUBJContexts))
			s := scalars[x.Choose(len(scalars))]
			mkDoc(x, codecUBJSON, "ubj-scalars", s.Class, gen.UBJContext(ctx, s.B), model.Complete, run)
		}},
		{Name: "ubj-trees", Arity: []int{gen.UBJTreeRootArity(), 3}, Body: func(x *engine.Exec) {
			doc := gen.UBJTree(x, maxNodes, nTypes)
			cl := "tree"
			if strings.Contains(string(doc), "$") {
				cl = "tree:typed"
			}
			mkDoc(x, codecUBJSON, "ubj-trees", cl, doc, model.Complete, run)
		}},
		{Name: "ubj-trees-5", Arity: []int{gen.UBJTreeRootArity(), 3, 3}, Body: func(x *engine.Exec) {
			if !sc.UBJDeep {
				return
			}
			doc := gen.UBJTree(x, 5, 3) // one more node over the three simplest element types
			cl := "tree"
			if strings.Contains(string(doc), "$") {
				cl = "tree:typed"
			}
			mkDoc(x, codecUBJSON, "ubj-trees-5", cl, doc, model.Complete, run)
		}},
		{Name: "ubj-typed-siblings", Body: func(x *engine.Exec) {
			// a typed container followed by siblings of another type, at two nesting levels
			types := []byte{'i', 'U', 'S', 'd', 'Z', '['}
			t := types[x.Choose(len(types))]
			obj := x.Bool()
			n := x.Choose(3)
			var inner []byte
			if obj {
				inner = []byte{'{', '$', t, '#', 'i', byte(n)}
			} else {
				inner = []byte{'[', '$', t, '#', 'i', byte(n)}
			}
			payload := map[byte][]byte{'i': {5}, 'U': {200}, 'S': {'i', 1, 's'}, 'd': {0x3f, 0, 0, 0}, 'Z': {}, '[': {'i', 1, ']'}}[t]
			for i := 0; i < n; i++ {
				if obj {
					inner = append(inner, 'i', 1, byte('a'+i))
				}
				inner = append(inner, payload...)
			}
			sib := [][]byte{{'S', 'i', 1, 'x'}, {'T'}, {'D', 0x3f, 0xe0, 0, 0, 0, 0, 0, 0}, {'[', 'i', 1, ']'}}[x.Choose(4)]
			var doc []byte
			switch x.Choose(4) {
			case 0:
				doc = cat2([]byte{'['}, inner, sib, []byte{']'})
			case 1:
				doc = cat2([]byte{'[', '#', 'i', 3}, inner, sib, inner)
			case 2:
				doc = cat2([]byte{'{', 'i', 1, 'p'}, inner, []byte{'i', 1, 'q'}, sib, []byte{'}'})
			default:
				doc = cat2([]byte{'[', '['}, inner, []byte{']'}, sib, inner, sib, []byte{']'})
			}
			mkDoc(x, codecUBJSON, "ubj-typed-siblings", "typed-then-sibling", doc, model.Complete, run)
		}},
		{Name: "ubj-marker-lengths", Body: func(x *engine.Exec) {
			// strings and keys whose length byte equals a structural marker ('}' = 125, ']' = 93, '#', '$', 'N', ...)
			lens := []int{125, 93, 91, 123, 35, 36, 78, 90, 84, 83}
			L := lens[x.Choose(len(lens))]
			m := []byte{'i', 'U', 'I'}[x.Choose(3)]
			key := append(gen.UBJLen(m, L), bytes.Repeat([]byte{'k'}, L)...)
			str := append(append([]byte{'S'}, gen.UBJLen(m, L)...), bytes.Repeat([]byte{'s'}, L)...)
			var doc []byte
			switch x.Choose(5) {
			case 0:
				doc = cat2([]byte{'{'}, key, []byte{'i', 1, '}'})
			case 1:
				doc = cat2([]byte{'{', 'i', 1, 'a', 'T'}, key, str, []byte{'}'})
			case 2:
				doc = cat2([]byte{'['}, str, []byte{'i', 2, ']'})
			case 3:
				doc = cat2([]byte{'{', '#', 'i', 1}, key, str)
			default:
				doc = cat2([]byte{'[', '$', 'S', '#', 'i', 2}, str[1:], str[1:])
			}
			mkDoc(x, codecUBJSON, "ubj-marker-lengths", fmt.Sprintf("marker-valued-length:%d", L), doc, model.Complete, run)
		}},
		{Name: "ubj-typed-nesting", Body: func(x *engine.Exec) {
			// a typed container whose element type is itself a container; one element holds a typed / counted container
			// (directly or one level deeper), and another element follows or precedes it: the element-type stack must be
			// back at the outer type when the next element starts
			outerObj := x.Bool()
			elemObj := x.Bool()
			inner := [][]byte{{'{', '$', 'i', '#', 'i', 1, 'i', 1, 'a', 5}, {'[', '$', 'i', '#', 'i', 1, 5}, {'{', '#', 'i', 1, 'i', 1, 'a', 'i', 5}, {'[', '$', 'S', '#', 'i', 1, 'i', 1, 's'},
				{'{', '$', '[', '#', 'i', 1, 'i', 1, 'a', 'T', ']'}, {'[', '$', 'Z', '#', 'i', 2}}[x.Choose(6)]
			if x.Bool() {
				inner = cat2([]byte{'['}, inner, []byte{'F', ']'})
			}
			elem := func(content []byte) []byte { // the payload of one element of the outer container (its marker is implied)
				if elemObj {
					return cat2([]byte{'i', 1, 'k'}, content, []byte{'}'})
				}
				return cat2(content, []byte{']'})
			}
			small := elem([]byte{'i', 7})
			big := elem(inner)
			first, second := big, small
			if x.Bool() {
				first, second = small, big
			}
			et := byte('[')
			if elemObj {
				et = '{'
			}
			var doc []byte
			if outerObj {
				doc = cat2([]byte{'{', '$', et, '#', 'i', 2, 'i', 1, 'p'}, first, []byte{'i', 1, 'q'}, second)
			} else {
				doc = cat2([]byte{'[', '$', et, '#', 'i', 2}, first, second)
			}
			if x.Bool() {
				doc = cat2([]byte{'['}, doc, []byte{'i', 9, ']'})
			}
			mkDoc(x, codecUBJSON, "ubj-typed-nesting", "typed-nesting", doc, model.Complete, run)
		}},
		{Name: "ubj-noop-insertions", Arity: []int{gen.UBJTreeRootArity(), 3}, Body: func(x *engine.Exec) {
			// a no-op marker inserted at EVERY byte position of every 3-node document (plain, counted and typed containers):
			// in front of values it is skipped and not counted, in front of field names and inside headers it is malformed,
			// inside payloads it is data - the reference decides, the parser must agree
			doc := gen.UBJTree(x, 3, 3)
			p := x.Choose(len(doc) + 1)
			ins := cat2(doc[:p], []byte{'N'}, doc[p:])
			if r := refOf(codecUBJSON, ins); r.Status == model.Malformed && strings.Contains(r.Feature, "length marker 'N'") {
				// the no-op stands where a length marker is expected - among others in front of a field name or of the '}' of
				// an object, where the draft can be read either way ("no-ops between elements") and parsers in the field
				// differ: neither accepting nor rejecting it is judged
				x.Count("noop_in_length_position_not_judged", 1)
				return
			}
			mkDoc(x, codecUBJSON, "ubj-noop-insertions", "noop-inserted", ins, anyStatus, run)
		}},
		{Name: "ubj-deep", Body: func(x *engine.Exec) {
			n := []int{30, 31, 32, 33, 40}[x.Choose(5)]
			var doc []byte
			for i := 0; i < n; i++ {
				doc = append(doc, '[')
			}
			switch x.Choose(4) {
			case 0:
				doc = append(doc, 'T')
			case 1:
				doc = append(append(doc, 'S', 'U', 70), bytes.Repeat([]byte{'s'}, 70)...)
			case 2:
				doc = append(doc, '[', '$', 'i', '#', 'i', 3, 1, 2, 3)
			default:
				doc = append(doc, '{', '#', 'i', 1, 'i', 1, 'k', 'H', 'i', 2, '1', '2')
			}
			for i := 0; i < n; i++ {
				doc = append(doc, ']')
			}
			mkDoc(x, codecUBJSON, "ubj-deep", "deep-nesting", doc, model.Complete, run)
		}},
		{Name: "ubj-deeper", Body: func(x *engine.Exec) {
			// across the first three growth steps of the parser's state / length / element-type stacks, in every container form
			n := []int{63, 64, 65, 66, 127, 128, 129, 130, 257}[x.Choose(9)]
			form := x.Choose(6) // plain arrays, plain objects, counted arrays, counted objects, typed-in-typed arrays, cycling through the first four
			var doc, tail []byte
			if form == 4 {
				// [$[#i1 $[#i1 ... : every level announces the element type of the next
				doc = append(doc, '[')
				for i := 0; i < n-1; i++ {
					doc = append(doc, '$', '[', '#', 'i', 1)
				}
				doc = append(doc, '$', 'i', '#', 'i', 1, 7)
			} else {
				for i := 0; i < n; i++ {
					f := form
					if form == 5 {
						f = i % 4
					}
					switch f {
					case 0:
						doc = append(doc, '[')
						tail = append([]byte{']'}, tail...)
					case 1:
						doc = append(doc, '{', 'i', 1, 'k')
						tail = append([]byte{'}'}, tail...)
					case 2:
						doc = append(doc, '[', '#', 'i', 1)
					default:
						doc = append(doc, '{', '#', 'i', 1, 'i', 1, 'k')
					}
				}
				if form <= 1 && x.Bool() {
					// one more element behind the deep child in every enclosing (plain) container
					var t2 []byte
					for _, c := range tail {
						if c == ']' {
							t2 = append(t2, 'i', 2, ']')
						} else {
							t2 = append(t2, 'i', 1, 's', 'i', 3, '}')
						}
					}
					tail = t2
				}
				doc = append(append(doc, 'T'), tail...)
			}
			mkDoc(x, codecUBJSON, "ubj-deeper", "deep-nesting", doc, model.Complete, run)
		}},
	}
}

const bs = "\\"

// jsonWithSiblings inserts one more element / member in front of every closing bracket of a nesting chain.
func jsonWithSiblings(doc string) string {
	var sb strings.Builder
	for i := 0; i < len(doc); i++ {
		switch doc[i] {
		case ']':
			sb.WriteString(",2]")
		case '}':
			sb.WriteString(`,"s":3}`)
		default:
			sb.WriteByte(doc[i])
		}
	}
	return sb.String()
}

func cat2(bs ...[]byte) []byte {
	var out []byte
	for _, b := range bs {
		out = append(out, b...)
	}
	return out
}

// jsonDocFamilies: the four JSON sub-languages of C04.
func jsonDocFamilies(sc docScope, run docBody) []engine.Family {
	maxTok := sc.JSONTok
	bodies := gen.JSONStringBodies(sc.JSONAtoms)
	nums := gen.JSONNumbers()
	if sc.NumStride > 1 {
		var sub []string
		for i := 0; i < len(nums); i += sc.NumStride {
			sub = append(sub, nums[i])
		}
		nums = sub
	}
	ws := gen.JSONWhitespace()
	nt := len(gen.JSONTokens)
	return []engine.Family{
		{Name: "json-structure", Arity: []int{nt + 1, nt + 1, nt + 1}, Body: func(x *engine.Exec) {
			var toks []string
			for len(toks) < maxTok {
				k := x.Choose(nt + 1)
				if k == 0 {
					break
				}
				toks = append(toks, gen.JSONTokens[k-1])
			}
			if len(toks) == 0 {
				return
			}
			doc := []byte(strings.Join(toks, " "))
			ref := model.RefJSON(doc)
			run(x, &DocCase{Codec: codecJSON, Doc: doc, Class: "structure:" + ref.Status.String(), Fam: "json-structure", Ref: ref})
		}},
		{Name: "json-strings", Arity: []int{3}, Body: func(x *engine.Exec) {
			pos := x.Choose(3)
			body := bodies[x.Choose(len(bodies))]
			var doc string
			switch pos {
			case 0:
				doc = `"` + body + `"`
			case 1:
				doc = `["` + body + `","` + body + `"]`
			default:
				doc = `{"` + body + `":"` + body + `"}`
			}
			cl := "string"
			if strings.Contains(body, bs) {
				cl += ":escape"
			}
			if strings.Contains(body, bs+"ud") || strings.Contains(body, bs+"uD") {
				cl += ":surrogate"
			}
			for _, c := range []byte(body) {
				if c >= 0x80 {
					cl += ":multibyte"
					break
				}
			}
			mkDoc(x, codecJSON, "json-strings", cl, []byte(doc), model.Complete, run)
		}},
		{Name: "json-numbers", Arity: []int{len(gen.JSONNumberContexts)}, Body: func(x *engine.Exec) {
			ctx := gen.JSONNumberContexts[x.Choose(sc.ctx(len(gen.JSONNumberContexts)))]
			lit := nums[x.Choose(len(nums))]
			doc := ctx[0] + lit + ctx[1]
			cl := "number"
			if !strings.ContainsAny(lit, ".eE") {
				cl = "number:integer-literal"
			}
			mkDoc(x, codecJSON, "json-numbers", cl, []byte(doc), model.Complete, run)
		}},
		{Name: "json-int-boundaries", Arity: []int{6}, Body: func(x *engine.Exec) {
			// every integer literal around the 64-bit and 32-bit limits: prefix + one or two more digits
			prefixes := []string{"1844674407370955161", "1844674407370955162", "922337203685477580", "922337203685477581", "429496729", "214748364"}
			lit := prefixes[x.Choose(len(prefixes))]
			lit += string(rune('0' + x.Choose(10)))
			if k := x.Choose(11); k > 0 {
				lit += string(rune('0' + k - 1))
			}
			if x.Bool() {
				lit = "-" + lit
			}
			ctx := [][2]string{{"", ""}, {"[", "]"}, {`{"a":`, "}"}}[x.Choose(3)]
			mkDoc(x, codecJSON, "json-int-boundaries", "number:integer-literal", []byte(ctx[0]+lit+ctx[1]), model.Complete, run)
		}},
		{Name: "json-whitespace", Arity: []int{len(gen.JSONDocs)}, Body: func(x *engine.Exec) {
			d := gen.JSONDocs[x.Choose(len(gen.JSONDocs))]
			ntok := strings.Count(d, "\x00") + 1
			i := x.Choose(ntok + 1)
			w := ws[x.Choose(len(ws))]
			doc, _ := gen.JSONWithWS(d, i, w)
			mkDoc(x, codecJSON, "json-whitespace", "whitespace", []byte(doc), model.Complete, run)
		}},
		{Name: "json-deep", Body: func(x *engine.Exec) {
			n := []int{31, 32, 33, 40, 64}[x.Choose(5)]
			doc := gen.JSONNest(n)
			if x.Bool() {
				doc = jsonWithSiblings(doc)
			}
			mkDoc(x, codecJSON, "json-deep", "deep-nesting", []byte(doc), model.Complete, run)
		}},
		{Name: "json-deeper", Body: func(x *engine.Exec) {
			n := []int{65, 66, 127, 128, 129, 130, 257}[x.Choose(7)]
			var doc string
			switch x.Choose(3) {
			case 0:
				doc = strings.Repeat("[", n) + "1" + strings.Repeat("]", n)
			case 1:
				doc = strings.Repeat(`{"k":`, n) + "1" + strings.Repeat("}", n)
			default:
				doc = gen.JSONNest(n)
			}
			if x.Bool() {
				// one more element behind the deep child in every enclosing container
				doc = jsonWithSiblings(doc)
			}
			mkDoc(x, codecJSON, "json-deeper", "deep-nesting", []byte(doc), model.Complete, run)
		}},
	}
}

// conformBody is the oracle of C04/C05/C06: the parser's events on doc against the reference decoder.
func conformBody(x *engine.Exec, c *DocCase) {
	cd := c.Codec
	x.Case(cd.Name+"|"+string(c.Doc), len(c.Doc) > 1)
	x.Sample(c.Desc)
	entry := cd.Name + ".Parse"
	rec, pr := parseAll(cd, c.Doc)
	wit := func() interface{} {
		m := c.Desc().(map[string]interface{})
		m["got_events"] = model.EventsString(rec.Evs)
		m["err"] = errStr(pr.Err)
		if len(c.Ref.Values) > 0 {
			m["ref_value"] = trunc(c.Ref.Values[0].String(), 300)
		}
		if c.Ref.Feature != "" {
			m["ref_feature"] = c.Ref.Feature
		}
		return m
	}
	if pr.Bad() {
		x.Violation(entry, pr.Symptom(), c.Class, pr.Panic+pr.Where, wit())
		return
	}
	x.Count("ref_"+c.Ref.Status.String(), 1)
	switch c.Ref.Status {
	case model.Complete:
		mayReject := false
		for _, v := range c.Ref.Values {
			if model.JSONOutOfRange(v) {
				mayReject = true
			}
		}
		if pr.Err != nil {
			if mayReject {
				x.Outcome("rejected-out-of-range")
				return
			}
			x.Violation(entry, "valid-rejected", c.Class, errStr(pr.Err), wit())
			return
		}
		got, err := model.ValuesOf(rec.Evs)
		if err != nil {
			x.Violation(entry, "ill-formed-events", c.Class, err.Error(), wit())
			return
		}
		if len(got) != len(c.Ref.Values) {
			x.Violation(entry, "wrong-value", c.Class, fmt.Sprintf("reference decodes %d values, parser reported %d", len(c.Ref.Values), len(got)), wit())
			return
		}
		for i := range got {
			if !model.Equal(c.Ref.Values[i], got[i], model.Exact) {
				x.Violation(entry, "wrong-value", c.Class, fmt.Sprintf("want %s got %s", trunc(c.Ref.Values[i].String(), 300), trunc(got[i].String(), 300)), wit())
				return
			}
		}
		x.Count("values_compared", int64(len(got)))
		if len(got) > 0 {
			x.Outcome(got[0].String())
		}
	case model.Unsupported:
		if pr.Err == nil {
			x.Violation(entry, "unsupported-accepted", c.Class, "item outside the subset was not refused: "+c.Ref.Feature, wit())
			return
		}
		x.Outcome("refused:" + c.Ref.Feature)
	case model.Malformed:
		if pr.Err == nil {
			x.Violation(entry, "malformed-accepted", c.Class, "reference: "+c.Ref.Feature, wit())
			return
		}
		x.Outcome("rejected-malformed")
	case model.Truncated:
		if pr.Err == nil {
			x.Violation(entry, "truncated-accepted", c.Class, "input ends inside a value", wit())
			return
		}
		x.Outcome("rejected-truncated")
	}
}

// jsonAfterRejected: "every valid text is accepted" also by a Parser that has just rejected another text: Parser.Parse starts
// a new document (it resets the parser), so a consumer that keeps one Parser and skips bad records must get the same
// verdict and value as from a new one. Rejected first texts: every proper prefix of a set of documents that end inside a
// string, an escape, a number, a literal, a key, after a comma or a colon - and some structurally wrong ones.
func jsonAfterRejected() engine.Family {
	bsl := "\\"
	full := []string{`"C:` + bsl + bsl + `x"`, `"a` + bsl + `u00e9b"`, `{"k` + bsl + `n":[1.5e3,true,null],"":"v"}`, `[-12.5,{"a":false}]`, `{"a":"` + bsl + `""}`}
	var rejected []string
	seen := map[string]bool{}
	for _, d := range full {
		for i := 1; i < len(d); i++ {
			if !seen[d[:i]] {
				seen[d[:i]] = true
				rejected = append(rejected, d[:i])
			}
		}
	}
	rejected = append(rejected, `]`, `{,}`, `[1 2]`, `{"a" 1}`, `"`+"\x01"+`"`, `nul`, `-`, `[1,]`)
	valid := []string{`{"":1,"b":2}`, `{"` + bsl + bsl + `":"x"}`, `{"a":true}`, `[1.5]`, `12`, `"x"`, `[]`, `{"k":{"":[null]}}`, `-0.5e1`, `"` + bsl + `t"`, `[18446744073709551615]`, `true`}
	return engine.Family{Name: "json-after-rejected", Arity: []int{len(rejected)}, Body: func(x *engine.Exec) {
		bad := rejected[x.Choose(len(rejected))]
		good := valid[x.Choose(len(valid))]
		x.Case("after-rejected|"+bad+"|"+good, true)
		x.Sample(func() interface{} { return map[string]interface{}{"first_text": bad, "second_text": good} })
		ref := refOf(codecJSON, []byte(good))
		if ref.Status != model.Complete || len(ref.Values) != 1 {
			engine.Fail("json-after-rejected: %q is not a single valid document", good)
		}
		rec := model.NewRecorder()
		var err1, err2 error
		mark := 0
		res := guard(int64(40000+400*(len(bad)+len(good))), func() error {
			p := codecJSON.NewParser(rec)
			err1 = codecJSON.ParseWith(p, exact([]byte(bad)))
			mark = len(rec.Evs)
			err2 = codecJSON.ParseWith(p, exact([]byte(good)))
			return nil
		})
		wit := func() interface{} {
			return map[string]interface{}{"first_text": bad, "first_err": errStr(err1), "second_text": good, "second_err": errStr(err2), "second_events": model.EventsString(rec.Evs[mark:]), "ref_value": ref.Values[0].String()}
		}
		if res.Bad() {
			x.Violation("json.Parser.Parse", res.Symptom(), "after-rejected", res.Panic+res.Where, wit())
			return
		}
		if err1 == nil {
			return // the first text was accepted: not this family's business (the conformance families judge single texts)
		}
		if err2 != nil {
			x.Violation("json.Parser.Parse", "valid-rejected", "after-rejected", "a valid text is rejected by a parser that has just rejected another text: "+errStr(err2), wit())
			return
		}
		got, err := model.ValuesOf(rec.Evs[mark:])
		if err != nil || len(got) != 1 || !model.Equal(ref.Values[0], got[0], model.Exact) {
			x.Violation("json.Parser.Parse", "wrong-value", "after-rejected", fmt.Sprintf("want %s", ref.Values[0]), wit())
			return
		}
		x.Count("accepted_after_rejected", 1)
	}}
}

func init() {
	register(func() {
		engine.Register(&engine.Check{
			ID: "C04", Level: "exploration",
			Rule:        "four exhaustive JSON sub-languages: all sequences of <=N tokens over { } [ ] , : \"a\" 1 true (valid and invalid structure), all string literals of <=k atoms over 21 atoms (raw multi-byte, every escape, surrogate pairs, lone surrogates) in 3 positions, ~1600 number literals x 10 terminating contexts, all whitespace strings <=2 at every token boundary of 10 documents, nesting up to 64; each parsed by the real parser and compared with the reference decoder refjson (math/big numbers); distinct by document bytes, non-trivial = more than one byte",
			Assumptions: []string{"refjson implements RFC 8259 (cross-checked against encoding/json in mc/model tests)", "documents outside the four sub-languages are not explored"},
			Families: func(tier string) []engine.Family {
				return append(jsonDocFamilies(conformScope(tier), conformBody), jsonAfterRejected())
			},
			Require: []string{"values_compared", "ref_malformed", "accepted_after_rejected"},
		})
		engine.Register(&engine.Check{
			ID: "C05", Level: "exploration",
			Rule:        "all CBOR items of the grammar up to N data items (definite direct / non-minimal one-byte / indefinite containers, text keys incl. empty), every integer boundary argument in every width for both integer majors, float bit patterns, strings with every length width, one item per unsupported feature at 8 positions, nesting to 70; parsed by the real parser and compared with the reference decoder refcbor; distinct by bytes, non-trivial = more than one byte",
			Assumptions: []string{"refcbor implements RFC 7049 section 2 (independent of the library)"},
			Families:    func(tier string) []engine.Family { return cborDocFamilies(conformScope(tier), conformBody) },
			Require:     []string{"values_compared", "ref_unsupported"},
		})
		engine.Register(&engine.Check{
			ID: "C06", Level: "exploration",
			Rule:        "all UBJSON values of the grammar up to N nodes (plain, counted, typed containers over up to 15 element types incl. containers of containers, no-ops in plain arrays; a no-op inserted at every byte position of every 3-node document), every scalar marker with boundary payloads, every length marker for strings/H, typed containers followed by siblings, nesting to 40; parsed by the real parser and compared with the reference decoder refubj; distinct by bytes, non-trivial = more than one byte",
			Assumptions: []string{"refubj implements UBJSON draft 12; a no-op is skipped (and not counted) wherever a value may start - top level, array elements, object member values, plain and counted containers - and is malformed inside a header; where a field name is expected the draft is ambiguous and neither verdict is judged", "char (0..127 only, as the draft says) is mapped to the integer of its byte, H to its string (library data model)"},
			Families:    func(tier string) []engine.Family { return ubjDocFamilies(conformScope(tier), conformBody) },
			Require:     []string{"values_compared"},
		})
	})
}
