package props

import (
	"fmt"
	"reflect"

	"github.com/elastic/go-structform/gotype"

	"verif/mc/engine"
	"verif/mc/model"
)

func init() {
	model.CustomFolders[reflect.TypeOf(SeedCustom{})] = func(p reflect.Value) model.Value {
		if p.IsNil() {
			return model.NullV()
		}
		n := p.Elem().Field(0).Int()
		return model.Value{K: model.VObj, Len: 1, Keys: []string{"folded"}, Elems: []model.Value{model.IntV(n * 10)}}
	}
	register(func() {
		engine.Register(&engine.Check{
			ID: "C12", Level: "exploration", Risky: true,
			Rule:        "Go types x values: every one-field struct over 37 field types x 8 tag options, every two-field struct over 20 field types x 8 tag options per field (built at run time with reflect.StructOf), every field type plain and wrapped in slice / map / pointer / interface, pointer depth 0-3, and ~30 compiled seed types (named types, value- and pointer-receiver Folder and IsZeroer, inline folders/interfaces/pointers, registered custom folders, recursive types, unsupported kinds) x a value alphabet per field (zero, empty non-nil, non-empty, boundary numbers), folded by value and by pointer with the real Fold; oracle: the value of the emitted events == the executable model of the documented tag rules (model.RefFold), or an error where the model refuses the type; a case = (type descriptor, value, by-value/by-pointer); non-trivial = struct with at least one tagged or composite field",
			Assumptions: []string{"struct types are limited to what reflect.StructOf can build plus the compiled seeds (method-bearing and named types only as seeds)", "where the statement is silent (non-nil pointer/interface whose target is empty by size under omitempty) both outcomes are accepted and counted as ambiguous_accepted", "map-derived members compared unordered"},
			Families:    func(tier string) []engine.Family { return goFamilies(tier, c12Body) },
			Require:     []string{"folds_compared", "refusals_checked"},
		})
	})
}

// foldRun folds the case's value with the real library into a recorder.
func foldRun(x *engine.Exec, c *GoCase, byPtr bool) (*model.Recorder, Result) {
	var in interface{}
	if !c.V.IsValid() {
		in = nil
	} else if byPtr {
		in = c.V.Addr().Interface()
	} else {
		in = c.V.Interface()
	}
	rec := model.NewRecorder()
	x.Journal("gotype.Fold", c.Class, c.Desc)
	res := guard(400000, func() error { return gotype.Fold(in, rec, c.Opts...) })
	return rec, res
}

func c12Body(x *engine.Exec, c *GoCase) {
	byPtr := x.Bool()
	x.Case(fmt.Sprintf("%s|%v", c.Key(), byPtr), c.Fam != "plain" || c.T.Kind() != reflect.Bool)
	x.Sample(c.Sample)
	var fe model.FoldExpect
	fe = model.RefFold(c.V.Interface())
	rec, res := foldRun(x, c, byPtr)
	wit := func() interface{} {
		m := c.Sample().(map[string]interface{})
		m["by_pointer"] = byPtr
		m["events"] = trunc(model.EventsString(rec.Evs), 400)
		m["err"] = errStr(res.Err)
		if fe.Refuse {
			m["model"] = "refuse: " + fe.Why
		} else {
			m["model"] = trunc(fe.V.String(), 400)
		}
		return m
	}
	if res.Bad() {
		x.Violation("gotype.Fold", res.Symptom(), c.Class, res.Panic+res.Where, wit())
		return
	}
	if fe.Refuse {
		x.Count("refusals_checked", 1)
		if res.Err == nil {
			x.Violation("gotype.Fold", "unsupported-accepted", c.Class, "the model refuses this type ("+fe.Why+") but Fold returned nil", wit())
		}
		x.Outcome("refused")
		return
	}
	if res.Err != nil {
		x.Violation("gotype.Fold", "supported-refused", c.Class, errStr(res.Err), wit())
		return
	}
	got, err := model.ValueOf(rec.Evs)
	if err != nil {
		x.Violation("gotype.Fold", "ill-formed-events", c.Class, err.Error(), wit())
		return
	}
	x.Count("folds_compared", 1)
	x.Count("ambiguous_accepted", int64(fe.Ambiguous))
	if !model.Equal(fe.V, got, model.Exact) {
		x.Violation("gotype.Fold", "wrong-value", c.Class, fmt.Sprintf("model %s, folded %s", trunc(fe.V.String(), 300), trunc(got.String(), 300)), wit())
		return
	}
	x.Outcome(got.String())
}
