package props

import (
	"errors"
	"fmt"
	"reflect"

	"github.com/elastic/go-structform/gotype"

	"verif/mc/engine"
	"verif/mc/model"
)

func init() {
	model.CustomFolders[reflect.TypeOf(SeedCustom{})] = func(p reflect.Value) model.Value {
		if p.IsNil() {
			return model.NullV()
		}
		n := p.Elem().Field(0).Int()
		return model.Value{K: model.VObj, Len: 1, Keys: []string{"folded"}, Elems: []model.Value{model.IntV(n * 10)}}
	}
	register(func() {
		engine.Register(&engine.Check{
			ID: "C12", Level: "exploration", Risky: true,
			Rule:        "Go types x values: every one-field struct over 37 field types x 8 tag options, every two-field struct over 20 field types x 8 tag options per field (built at run time with reflect.StructOf), every field type plain and wrapped in slice / map / pointer / interface, pointer depth 0-3, and ~30 compiled seed types (named types, value- and pointer-receiver Folder and IsZeroer, inline folders/interfaces/pointers, registered custom folders, recursive types, unsupported kinds) x a value alphabet per field (zero, empty non-nil, non-empty, boundary numbers), folded by value and by pointer with the real Fold; plus field-count thresholds (0-24 fields), two-level inlining at zero and non-zero offsets, 16 further tag spellings, container/string sizes 0-33, nesting up to 17; plus one long-lived Iterator: value a folded into a visitor that fails at event k (every k), then value b folded on the same Iterator (every pair over the inline/custom-folder seeds); oracle: the value of the emitted events == the executable model of the documented tag rules (model.RefFold), or an error where the model refuses the type; a case = (type descriptor, value, by-value/by-pointer); non-trivial = struct with at least one tagged or composite field",
			Assumptions: []string{"struct types are limited to what reflect.StructOf can build plus the compiled seeds (method-bearing and named types only as seeds)", "where the statement is silent (non-nil pointer/interface whose target is empty by size under omitempty) both outcomes are accepted and counted as ambiguous_accepted", "map-derived members compared unordered"},
			Families: func(tier string) []engine.Family {
				return append(goFamilies(tier, c12Body), c12HistoryFamilies(tier)...)
			},
			Require: []string{"folds_compared", "refusals_checked", "folds_after_failed_fold_compared"},
		})
	})
}

// foldRun folds the case's value with the real library into a recorder.
func foldRun(x *engine.Exec, c *GoCase, byPtr bool) (*model.Recorder, Result) {
	var in interface{}
	if !c.V.IsValid() {
		in = nil
	} else if byPtr {
		in = c.V.Addr().Interface()
	} else {
		in = c.V.Interface()
	}
	rec := model.NewRecorder()
	x.Journal("gotype.Fold", c.Class, c.Desc)
	res := guard(400000, func() error { return gotype.Fold(in, rec, c.Opts...) })
	return rec, res
}

func c12Body(x *engine.Exec, c *GoCase) {
	byPtr := x.Bool()
	x.Case(fmt.Sprintf("%s|%v", c.Key(), byPtr), c.Fam != "plain" || c.T.Kind() != reflect.Bool)
	x.Sample(c.Sample)
	if c.Custom != nil {
		// the folders this case registers (one execution at a time per process)
		saved := model.CustomFolders
		model.CustomFolders = c.Custom
		defer func() { model.CustomFolders = saved }()
	}
	var fe model.FoldExpect
	fe = model.RefFold(c.V.Interface())
	rec, res := foldRun(x, c, byPtr)
	wit := func() interface{} {
		m := c.Sample().(map[string]interface{})
		m["by_pointer"] = byPtr
		m["events"] = trunc(model.EventsString(rec.Evs), 400)
		m["err"] = errStr(res.Err)
		if fe.Refuse {
			m["model"] = "refuse: " + fe.Why
		} else {
			m["model"] = trunc(fe.V.String(), 400)
		}
		return m
	}
	if res.Bad() {
		x.Violation("gotype.Fold", res.Symptom(), c.Class, res.Panic+res.Where, wit())
		return
	}
	if fe.Refuse {
		x.Count("refusals_checked", 1)
		if res.Err == nil {
			x.Violation("gotype.Fold", "unsupported-accepted", c.Class, "the model refuses this type ("+fe.Why+") but Fold returned nil", wit())
		}
		x.Outcome("refused")
		return
	}
	if res.Err != nil {
		x.Violation("gotype.Fold", "supported-refused", c.Class, errStr(res.Err), wit())
		return
	}
	got, err := model.ValueOf(rec.Evs)
	if err != nil {
		x.Violation("gotype.Fold", "ill-formed-events", c.Class, err.Error(), wit())
		return
	}
	x.Count("folds_compared", 1)
	x.Count("ambiguous_accepted", int64(fe.Ambiguous))
	if !model.Equal(fe.V, got, model.Exact) {
		x.Violation("gotype.Fold", "wrong-value", c.Class, fmt.Sprintf("model %s, folded %s", trunc(fe.V.String(), 300), trunc(got.String(), 300)), wit())
		return
	}
	x.Outcome(got.String())
}

// c12HistoryFamilies: the mapping must not depend on what the Iterator did before - in particular not on an
// earlier Fold that failed half-way (the target visitor returned an error at event k).
func c12HistoryFamilies(tier string) []engine.Family {
	type hv struct {
		class string
		v     interface{}
	}
	groups := map[bool][]hv{}
	want := map[string]bool{"SeedBadRec": true, "SeedBadInline": true, "SeedHolder": true, "SeedInlineFolderV": true, "SeedInlineFolderP": true, "SeedInlineIfc": true, "SeedInlinePtr": true, "SeedNode": true,
		"SeedNamedFields": true, "SeedTags": true, "SeedCustomHolder": true, "SeedFolderV": true, "SeedRec": true, "SeedWithUnexported": true}
	var customOpts []gotype.FoldOption
	for _, s := range seeds() {
		if !want[s.name] {
			continue
		}
		if s.opts != nil {
			customOpts = s.opts
		}
		for _, v := range s.vals {
			groups[s.opts != nil] = append(groups[s.opts != nil], hv{"seed:" + s.name, v})
		}
	}
	// a struct that inlines a map and one that inlines a struct, built like the generated ones
	type inlMap struct {
		A int
		M map[string]interface{} `struct:",inline"`
		Z string
	}
	groups[false] = append(groups[false], hv{"inline-map", inlMap{A: 1, M: map[string]interface{}{"k": SeedFolderV{3}}, Z: "z"}}, hv{"inline-map", inlMap{A: 2}})
	failure := errors.New("visitor failure injected by the harness")
	mk := func(name string, custom bool) engine.Family {
		vals := groups[custom]
		if custom {
			vals = append(vals, groups[false][:8]...)
		}
		var opts []gotype.FoldOption
		if custom {
			opts = customOpts
		}
		return engine.Family{Name: name, Arity: []int{len(vals)}, Body: func(x *engine.Exec) {
			a := vals[x.Choose(len(vals))]
			// length of a's fold
			probe := model.NewRecorder()
			if r := guard(400000, func() error { return gotype.Fold(a.v, probe, opts...) }); r.Bad() {
				return // reported by the stateless families
			}
			k := x.Choose(len(probe.Evs) + 1)
			b := vals[x.Choose(len(vals))]
			fe := model.RefFold(b.v)
			desc := fmt.Sprintf("%T %s fails at event %d, then %T %s", a.v, trunc(model.Dump(a.v), 80), k, b.v, trunc(model.Dump(b.v), 80))
			x.Case(desc, true)
			x.Sample(func() interface{} {
				return map[string]interface{}{"first_value": trunc(model.Dump(a.v), 200), "first_type": fmt.Sprintf("%T", a.v), "visitor_fails_at_event": k, "second_value": trunc(model.Dump(b.v), 200), "second_type": fmt.Sprintf("%T", b.v)}
			})
			rec := model.NewRecorder()
			rec.Err = failure
			var err1, err2 error
			mark := 0
			x.Journal("gotype.Iterator.Fold", "after-failed-fold:"+b.class, desc)
			res := guard(800000, func() error {
				it, err := gotype.NewIterator(rec, opts...)
				if err != nil {
					return err
				}
				if k < len(probe.Evs) {
					rec.FailAt = k
				}
				err1 = it.Fold(a.v)
				rec.FailAt = -1
				mark = len(rec.Evs)
				err2 = it.Fold(b.v)
				return nil
			})
			wit := func() interface{} {
				return map[string]interface{}{"first_value": trunc(model.Dump(a.v), 200), "first_type": fmt.Sprintf("%T", a.v), "visitor_fails_at_event": k, "first_err": errStr(err1),
					"second_value": trunc(model.Dump(b.v), 200), "second_type": fmt.Sprintf("%T", b.v), "second_err": errStr(err2), "second_events": trunc(model.EventsString(rec.Evs[mark:]), 400), "model": trunc(fe.V.String(), 400), "model_refuses": fe.Why}
			}
			class := "after-failed-fold:" + b.class
			if res.Bad() || res.Err != nil {
				x.Violation("gotype.Iterator.Fold", symptomOr(res, "error"), class, res.Panic+res.Where+errStr(res.Err), wit())
				return
			}
			if k < len(probe.Evs) && err1 == nil {
				x.Violation("gotype.Iterator.Fold", "visitor-error-swallowed", class, "the visitor failed at event "+fmt.Sprint(k)+" but Fold returned nil", wit())
				return
			}
			if fe.Refuse {
				// a value the model refuses must be refused again (an error, not a crash, not silence) whatever came before
				x.Count("refusals_checked", 1)
				if err2 == nil {
					x.Violation("gotype.Iterator.Fold", "unsupported-accepted", class, "the model refuses this value ("+fe.Why+") but Fold on the used iterator returned nil", wit())
				}
				return
			}
			if err2 != nil {
				x.Violation("gotype.Iterator.Fold", "supported-refused", class, errStr(err2), wit())
				return
			}
			got, err := model.ValueOf(rec.Evs[mark:])
			if err != nil {
				x.Violation("gotype.Iterator.Fold", "ill-formed-events", class, err.Error(), wit())
				return
			}
			x.Count("folds_after_failed_fold_compared", 1)
			if !model.Equal(fe.V, got, model.Exact) {
				x.Violation("gotype.Iterator.Fold", "wrong-value", class, fmt.Sprintf("model %s, folded %s", trunc(fe.V.String(), 300), trunc(got.String(), 300)), wit())
				return
			}
			x.Outcome(got.String())
		}}
	}
	return []engine.Family{mk("iterator-after-failed-fold", false), mk("iterator-after-failed-fold-custom", true)}
}

func symptomOr(r Result, dflt string) string {
	if s := r.Symptom(); s != "" {
		return s
	}
	return dflt
}
