package props

import (
	"bytes"
	"fmt"
	"io"
	"reflect"

	structform "github.com/elastic/go-structform"
	"github.com/elastic/go-structform/cborl"
	"github.com/elastic/go-structform/gotype"
	"github.com/elastic/go-structform/ubjson"

	"verif/mc/engine"
	"verif/mc/gen"
	"verif/mc/model"
)

// wrappers exposing only one of the three optional interfaces of a full ExtVisitor
type onlyArr struct {
	structform.Visitor
	structform.ArrayValueVisitor
}
type onlyObj struct {
	structform.Visitor
	structform.ObjectValueVisitor
}
type onlyStr struct {
	structform.Visitor
	structform.StringRefVisitor
}

// c10Position: events before X, events after X inside the same container, closing events.
type c10Position struct {
	name             string
	pre, post, close []model.Event
}

var c10Seven = model.SInt(model.KInt8, 7)

var c10Positions = []c10Position{
	{"top", nil, nil, nil},
	{"first-of-unknown-array", []model.Event{model.ArrStart(-1, 0)}, []model.Event{c10Seven, c10Seven}, []model.Event{model.ArrEnd()}},
	{"last-of-unknown-array", []model.Event{model.ArrStart(-1, 0), c10Seven, c10Seven}, nil, []model.Event{model.ArrEnd()}},
	{"middle-of-known-array", []model.Event{model.ArrStart(3, 0), c10Seven}, []model.Event{c10Seven}, []model.Event{model.ArrEnd()}},
	{"last-of-known-array", []model.Event{model.ArrStart(2, 0), c10Seven}, nil, []model.Event{model.ArrEnd()}},
	{"object-value", []model.Event{model.ObjStart(-1, 0), model.Key("k")}, []model.Event{model.Key("z"), c10Seven}, []model.Event{model.ObjEnd()}},
	{"known-object-last-value", []model.Event{model.ObjStart(2, 0), model.Key("k"), c10Seven, model.Key("z")}, nil, []model.Event{model.ObjEnd()}},
	{"nested", []model.Event{model.ArrStart(-1, 0), model.ObjStart(1, 0), model.Key("k")}, nil, []model.Event{model.ObjEnd(), model.Nil(), model.ArrEnd()}},
	// next to other extended events (delivered as extended events in both runs)
	{"after-typed-array", []model.Event{model.ArrStart(-1, 0), model.Ext(model.KInt8Array, []int8{1, -1})}, []model.Event{c10Seven}, []model.Event{model.ArrEnd()}},
	{"before-typed-map", []model.Event{model.ArrStart(3, 0), c10Seven}, []model.Event{model.Ext(model.KStringObject, map[string]string{"s": "v"})}, []model.Event{model.ArrEnd()}},
	{"between-empty-typed", []model.Event{model.ObjStart(-1, 0), model.Key("e"), model.Ext(model.KBoolArray, []bool{}), model.Key("k")}, []model.Event{model.Key("m"), model.Ext(model.KUintObject, map[string]uint{})}, []model.Event{model.ObjEnd()}},
	{"deep", []model.Event{model.ArrStart(1, 0), model.ArrStart(-1, 0), model.ObjStart(-1, 0), model.Key("a"), model.ArrStart(2, 0), model.Nil()}, nil, []model.Event{model.ArrEnd(), model.ObjEnd(), model.ArrEnd(), model.ArrEnd()}},
}

var c10SecondDoc = []model.Event{model.ArrStart(1, 0), model.Str("second"), model.ArrEnd()}

const c10Consumers = 13

func c10ConsumerName(i int) string {
	return [...]string{"json.Visitor", "ubjson.Visitor", "cborl.Visitor", "gotype.Unfolder(interface{})", "gotype.Unfolder(typed)", "EnsureExtVisitor(plain)",
		"EnsureExtVisitor(ubjson:only-arrays)", "EnsureExtVisitor(ubjson:only-maps)", "EnsureExtVisitor(ubjson:only-stringref)",
		"EnsureExtVisitor(cborl:only-arrays)", "EnsureExtVisitor(cborl:only-maps)", "EnsureExtVisitor(cborl:only-stringref)", "gotype.Unfolder(string targets)"}[i]
}

func init() {
	register(func() {
		engine.Register(&engine.Check{
			ID: "C10", Level: "exploration",
			Rule:        "every extended event (15 typed array kinds, 14 typed map kinds, each with nil/empty/one/two/boundary contents incl. values forcing the widest UBJSON marker; OnStringRef/OnKeyRef with the string alphabet) x 12 positions (top level, first/middle/last of known- and unknown-length arrays, object value, nested, 4 levels deep, directly after / before / between other extended events incl. empty ones) x follow-ups (events after it in the same container, closing the container, a second document) x 12 consumers (3 encoders, unfolder into interface{} and into the matching typed target, EnsureExtVisitor over a plain visitor and over visitors exposing only one optional interface); run A delivers the extended call, run B its basic-event expansion to a second fresh consumer; oracle: same decoded value (reference decoders; map-derived objects unordered), identical bytes for everything written after the event, identical private-state fingerprint right after the event, deep-equal unfolded Go values, identical recorded events; a case = (event, position, consumer); non-trivial = non-empty contents",
			Assumptions: []string{"map-derived members are compared unordered", "fingerprint abstraction as in C17"},
			Families:    c10Families,
			Require:     []string{"pairs_compared", "fingerprints_compared", "followup_bytes_compared"},
		})
	})
}

func c10Families(tier string) []engine.Family {
	exts := append([]model.Event{}, extEventsCache(tier == "thorough")...)
	for _, s := range []string{"", "a", "é\"\\\n", "\xff", string(bytes.Repeat([]byte{'k'}, 70))} {
		exts = append(exts, model.StrRef(s))
	}
	return []engine.Family{
		{Name: "ext-vs-expansion", Arity: []int{len(c10Positions), c10Consumers}, Body: func(x *engine.Exec) {
			pos := c10Positions[x.Choose(len(c10Positions))]
			cons := x.Choose(c10Consumers)
			ev := exts[x.Choose(len(exts))]
			c10Body(x, pos, cons, ev, false)
		}},
		{Name: "ext-pairs-and-sizes", Arity: []int{2, c10Consumers}, Body: func(x *engine.Exec) {
			// all ordered pairs of width-boundary values per integer array kind, and every typed array / map with 23..257 elements,
			// at top level and in the middle of an array of known length
			pos := []c10Position{c10Positions[0], c10Positions[3]}[x.Choose(2)]
			cons := x.Choose(c10Consumers)
			pairs := extPairsCache()
			k := x.Choose(len(pairs) + len(extSizes))
			var ev model.Event
			if k < len(pairs) {
				ev = pairs[k]
			} else {
				sized := gen.ExtSizedEvents(extSizes[k-len(pairs)])
				ev = sized[x.Choose(len(sized))]
			}
			c10Body(x, pos, cons, ev, false)
		}},
		{Name: "keyref-vs-key", Arity: []int{c10Consumers}, Body: func(x *engine.Exec) {
			cons := x.Choose(c10Consumers)
			k := []string{"", "a", "é\"\\\n", "\xff", string(bytes.Repeat([]byte{'k'}, 70))}[x.Choose(5)]
			known := x.Bool()
			l := -1
			if known {
				l = 2
			}
			pos := c10Position{"key", []model.Event{model.ObjStart(l, 0), model.Key("p"), c10Seven}, []model.Event{c10Seven}, []model.Event{model.ObjEnd()}}
			c10Body(x, pos, cons, model.KeyRef(k), true)
		}},
	}
}

func c10Body(x *engine.Exec, pos c10Position, cons int, ev model.Event, isKey bool) {
	var expansion []model.Event
	switch {
	case ev.K >= model.KBoolArray:
		expansion = model.ExpandOne(ev)
		if ev.K.IsExtObj() {
			expansion[0].B = false // the unordered marker is not an event attribute
		}
	case isKey:
		expansion = []model.Event{model.Key(ev.S)}
	default:
		expansion = []model.Event{model.Str(ev.S)}
	}
	if cons == 4 && (ev.K < model.KBoolArray || pos.name != "top") {
		return // typed targets only make sense for a top-level typed array/map
	}
	if cons == 12 && (ev.K >= model.KBoolArray || (pos.name != "top" && pos.name != "object-value" && pos.name != "key")) {
		return // string-typed targets (reached through pointers, named types, struct fields, map keys) only for by-reference strings
	}
	name := c10ConsumerName(cons)
	class := leafClass(ev)
	x.Case(fmt.Sprintf("%s|%s|%s", pos.name, name, ev.String()), streamSize([]model.Event{ev}) > 1)
	desc := func() interface{} {
		return map[string]interface{}{"event": ev.String(), "position": pos.name, "consumer": name}
	}
	x.Sample(desc)

	type runResult struct {
		all, follow []byte
		fp          string
		val         string
		evs         []model.Event
		err         error
		res         Result
	}
	run := func(xs []model.Event) (r runResult) {
		var buf bytes.Buffer
		var raw interface{}
		var v structform.ExtVisitor
		var target interface{}
		rec := model.NewRecorder()
		switch cons {
		case 0, 1, 2:
			e := codecs[cons].NewEnc(&buf, 0)
			raw, v = e, structform.EnsureExtVisitor(e)
		case 3:
			target = new(interface{})
			u, _ := gotype.NewUnfolder(target)
			raw, v = u, structform.EnsureExtVisitor(u)
		case 4:
			target = reflect.New(reflect.TypeOf(ev.Ext)).Interface()
			u, err := gotype.NewUnfolder(target)
			if err != nil {
				r.err = fmt.Errorf("NewUnfolder refused %T: %v", target, err)
				return
			}
			raw, v = u, structform.EnsureExtVisitor(u)
		case 12:
			switch pos.name {
			case "top":
				target = new(**string)
			case "object-value":
				target = &struct {
					K *string          `struct:"k"`
					N *gen.SeedMyStr   `struct:"n"`
					Z map[string]**int `struct:"z"`
				}{}
			default:
				target = &map[string]*int{}
			}
			if pos.name == "object-value" {
				target = &struct {
					K **string `struct:"k"`
					Z *int     `struct:"z"`
				}{}
			}
			u, err := gotype.NewUnfolder(target)
			if err != nil {
				r.err = fmt.Errorf("NewUnfolder refused %T: %v", target, err)
				return
			}
			raw, v = u, structform.EnsureExtVisitor(u)
		case 5:
			raw, v = nil, structform.EnsureExtVisitor(model.PlainRecorder{R: rec})
		default:
			var full structform.ExtVisitor
			var w io.Writer = &buf
			if cons <= 8 {
				full = ubjson.NewVisitor(w)
			} else {
				// cborl has no native typed maps: build the full visitor through the library
				full = structform.EnsureExtVisitor(cborl.NewVisitor(w))
			}
			raw = full
			switch (cons - 6) % 3 {
			case 0:
				v = structform.EnsureExtVisitor(onlyArr{full, full})
			case 1:
				v = structform.EnsureExtVisitor(onlyObj{full, full})
			default:
				v = structform.EnsureExtVisitor(onlyStr{full, full})
			}
			if _, ok := raw.(*ubjson.Visitor); !ok {
				raw = nil
			}
		}
		var evs []model.Event
		evs = append(evs, pos.pre...)
		evs = append(evs, xs...)
		nAfterX := len(evs)
		evs = append(evs, pos.post...)
		evs = append(evs, pos.close...)
		evs = append(evs, c10SecondDoc...)
		r.res = guard(int64(50000+400*streamSize(evs)), func() error {
			if _, err := model.Drive(v, evs[:nAfterX]); err != nil {
				return err
			}
			mark := buf.Len()
			if raw != nil {
				r.fp = model.Fingerprint(raw, model.FPOpts{Skip: c17IdleSkip, DepthsOnly: true})
			}
			stop := len(evs)
			if cons == 3 || cons == 4 || cons == 12 {
				stop -= len(c10SecondDoc) // one target, one document
			}
			if _, err := model.Drive(v, evs[nAfterX:stop]); err != nil {
				return err
			}
			r.follow = append([]byte(nil), buf.Bytes()[mark:]...)
			return nil
		})
		r.err = r.res.Err
		r.all = buf.Bytes()
		r.evs = rec.Evs
		if target != nil {
			r.val = model.Dump(target)
		}
		return
	}
	a := run([]model.Event{ev})
	b := run(expansion)
	wit := func() interface{} {
		m := desc().(map[string]interface{})
		m["ext_bytes"], m["expanded_bytes"] = hexs(a.all), hexs(b.all)
		m["ext_err"], m["expanded_err"] = errStr(a.err), errStr(b.err)
		if a.val != "" || b.val != "" {
			m["ext_value"], m["expanded_value"] = trunc(a.val, 300), trunc(b.val, 300)
		}
		return m
	}
	if a.res.Bad() || b.res.Bad() {
		x.Violation(name, a.res.Symptom()+b.res.Symptom(), class, a.res.Panic+a.res.Where+b.res.Panic+b.res.Where, wit())
		return
	}
	if (a.err == nil) != (b.err == nil) {
		x.Violation(name, "error-differs", class, fmt.Sprintf("extended: %v, expansion: %v", errStr(a.err), errStr(b.err)), wit())
		return
	}
	if a.err != nil {
		x.Count("both_refused", 1)
		return
	}
	x.Count("pairs_compared", 1)
	switch {
	case cons == 3 || cons == 4 || cons == 12:
		if a.val != b.val {
			x.Violation(name, "wrong-value", class, "unfolded values differ", wit())
			return
		}
	case cons == 5:
		va, ea := model.ValuesOf(a.evs)
		vb, eb := model.ValuesOf(b.evs)
		if ea != nil || eb != nil || len(va) != len(vb) {
			x.Violation(name, "ill-formed-events", class, fmt.Sprintf("%v / %v", ea, eb), wit())
			return
		}
		// the adapter's output must be the expansion: same events, map members in any order
		for i := range va {
			ub := vb[i]
			markUnordered(&ub)
			if !model.Equal(ub, va[i], model.Exact) || !sameAnnouncements(a.evs, b.evs) {
				x.Violation(name, "wrong-value", class, fmt.Sprintf("adapter events %s, expansion %s", trunc(model.EventsString(a.evs), 300), trunc(model.EventsString(b.evs), 300)), wit())
				return
			}
		}
		if rule, idx := model.CheckContract(a.evs, true, false); rule != "" {
			x.Violation(name, "contract:"+rule, class, fmt.Sprintf("event %d", idx), wit())
			return
		}
	default:
		cd := codecs[1]
		switch {
		case cons <= 2:
			cd = codecs[cons]
		case cons >= 9:
			cd = codecCBOR
		}
		ra, rb := refOf(cd, a.all), refOf(cd, b.all)
		if ra.Status != model.Complete || rb.Status != model.Complete || len(ra.Values) != len(rb.Values) {
			x.Violation(name, "invalid-document", class, fmt.Sprintf("reference decoder: extended %v/%d values, expansion %v/%d values", ra.Status, len(ra.Values), rb.Status, len(rb.Values)), wit())
			return
		}
		for i := range ra.Values {
			ub := rb.Values[i]
			markUnordered(&ub)
			if !model.Equal(ub, ra.Values[i], model.Exact) {
				x.Violation(name, "wrong-value", class, fmt.Sprintf("extended decodes to %s, expansion to %s", trunc(ra.Values[i].String(), 250), trunc(rb.Values[i].String(), 250)), wit())
				return
			}
		}
		if !bytes.Equal(a.follow, b.follow) {
			x.Violation(name, "follow-up-differs", class, fmt.Sprintf("bytes written after the event: extended %x, expansion %x", a.follow, b.follow), wit())
			return
		}
		x.Count("followup_bytes_compared", 1)
	}
	if a.fp != "" || b.fp != "" {
		if a.fp != b.fp {
			x.Violation(name, "state-differs", class, "private state after the event differs: "+fpDiffS(b.fp, a.fp), wit())
			return
		}
		x.Count("fingerprints_compared", 1)
	}
	x.Outcome(name + "|" + fmt.Sprint(len(a.all)))
}

func markUnordered(v *model.Value) {
	if v.K == model.VObj {
		v.Unordered = true
	}
	for i := range v.Elems {
		markUnordered(&v.Elems[i])
	}
}

// sameAnnouncements compares the start events (length and element type) of two streams in order.
func sameAnnouncements(a, b []model.Event) bool {
	var sa, sb []model.Event
	for _, e := range a {
		if e.K == model.KArrStart || e.K == model.KObjStart {
			sa = append(sa, e)
		}
	}
	for _, e := range b {
		if e.K == model.KArrStart || e.K == model.KObjStart {
			sb = append(sb, e)
		}
	}
	return model.SameEvents(sa, sb)
}

func fpDiffS(a, b string) string {
	if len(a) > 200 {
		a = a[:200]
	}
	if len(b) > 200 {
		b = b[:200]
	}
	return fmt.Sprintf("expansion %q vs extended %q", a, b)
}
