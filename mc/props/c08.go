package props

import (
	"bytes"
	"fmt"
	"io"

	structform "github.com/elastic/go-structform"

	"verif/mc/engine"
	"verif/mc/model"
)

var c08Containers = map[*Codec][][]byte{
	codecJSON:   {[]byte(`[1,"a"]`), []byte(`{"a":[true,null]}`), []byte(`[]`), []byte(`{}`), []byte(`[[-2.5],{"":18446744073709551615}]`)},
	codecCBOR:   {{0x82, 0x01, 0x61, 'a'}, {0xa1, 0x61, 'a', 0x82, 0xf5, 0xf6}, {0x80}, {0xa0}, {0x9f, 0x42, 1, 2, 0xbf, 0x60, 0x38, 0xc7, 0xff, 0xff}, {0x81, 0x1b, 0xff, 0xff, 0xff, 0xff, 0xff, 0xff, 0xff, 0xff}},
	codecUBJSON: {[]byte("[i\x01Si\x01a]"), []byte("{i\x01a[TZ]}"), []byte("[]"), []byte("{}"), []byte("[$U#i\x02\x01\x02"), []byte("{#i\x01i\x00HU\x0218"), []byte("[#i\x02Cxd\x3f\x80\x00\x00")},
}

func init() {
	register(func() {
		engine.Register(&engine.Check{
			ID: "C08", Level: "exploration",
			Rule:        "valid source documents of each wire language (scalars with every width in containers, trees, typed UBJSON containers, CBOR byte strings / non-minimal integers / indefinite containers, JSON strings/numbers/whitespace) and streams of 2-3 concatenated container documents x all 9 (source,target) pairs x {ParseReader, Decoder.Next loop} x chunkings {whole, every single cut, all single bytes}; the parser is connected directly to the real encoder; oracle (i) the reference decoder of the target format reads back exactly as many documents with the source's reference value (up to the target's representation rules); (ii) differential: bytes of the direct connection == bytes produced by replaying a copied recording of the parser's events into a fresh encoder; a case = (document, pair, entry, chunking); non-trivial = source document longer than one byte",
			Assumptions: []string{"source documents with non-finite floats are expected to be refused by the JSON target (documented)", "reference decoders define source and target values"},
			Families:    c08Families,
			Require:     []string{"transcodings_compared", "differential_compared", "streams_multi"},
		})
	})
}

func c08Families(tier string) []engine.Family {
	// thorough: 4-node CBOR trees, 3-node UBJSON trees over all 15 element types (the 4-node UBJSON space
	// times 9 pairs x 2 entries x chunkings did not finish within the internal deadline), all contexts, all numbers
	sc := docScope{Nodes: tierPick(tier, 3, 4), UBJNodes: 3, UBJTypes: tierPick(tier, 8, 15), JSONTok: 0, JSONAtoms: tierPick(tier, 1, 2), NumStride: tierPick(tier, 9, 1), Ctx: tierPick(tier, 3, 0), ScStride: 1}
	fams := allDocFamilies(sc, func(x *engine.Exec, c *DocCase) {
		if c.Ref.Status != model.Complete || c.Fam == "json-structure" || len(c.Doc) > 600 {
			return
		}
		c08Body(x, c.Codec, c.Doc, c.Ref, c.Class)
	})
	var keep []engine.Family
	for _, f := range fams {
		if f.Name == "json-structure" || f.Name == "cbor-unsupported" || f.Name == "json-deep" || f.Name == "cbor-deep" || f.Name == "ubj-deep" {
			continue
		}
		keep = append(keep, f)
	}
	keep = append(keep, engine.Family{Name: "container-streams", Arity: []int{3}, Body: func(x *engine.Exec) {
		cd := codecs[x.Choose(3)]
		corpus := c08Containers[cd]
		k := 2 + x.Choose(2)
		var doc []byte
		for i := 0; i < k; i++ {
			if i > 0 && cd == codecJSON && x.Bool() {
				doc = append(doc, '\n')
			}
			doc = append(doc, corpus[x.Choose(len(corpus))]...)
		}
		ref := refOf(cd, doc)
		if ref.Status != model.Complete || len(ref.Values) != k {
			engine.Fail("container stream %x: %v %d", doc, ref.Status, len(ref.Values))
		}
		x.Count("streams_multi", 1)
		c08Body(x, cd, doc, ref, "stream")
	}})
	return keep
}

func c08Body(x *engine.Exec, src *Codec, doc []byte, ref model.Ref, class string) {
	dst := codecs[x.Choose(3)]
	entry := x.Choose(2)
	chunks := chooseChunksLight(x, len(doc))
	entryName := [...]string{"ParseReader", "Decoder.Next"}[entry]
	pair := src.Name + "->" + dst.Name
	x.Case(fmt.Sprintf("%s|%d|%x|%v", pair, entry, doc, chunks), len(doc) > 1)
	desc := func() interface{} {
		return map[string]interface{}{"pair": pair, "entry": entryName, "source_hex": hexs(doc), "source_text": trunc(fmt.Sprintf("%q", doc), 160), "chunks": chunks}
	}
	x.Sample(desc)
	var out bytes.Buffer
	budget := int64(20000 + 800*len(doc))
	res := guard(budget, func() error {
		enc := dst.NewEnc(&out, 0)
		r := &chunkReader{doc: doc, chunks: copyChunks(chunks)}
		if entry == 0 {
			_, err := src.ParseReader(r, enc)
			return err
		}
		d := src.ReaderDec(r, 16, enc)
		for i := 0; i <= len(doc)+1; i++ {
			if err := d.Next(); err != nil {
				if err == io.EOF {
					return nil
				}
				return err
			}
		}
		return errNoTermination
	})
	wit := func(extra string) interface{} {
		m := desc().(map[string]interface{})
		m["target_hex"] = hexs(out.Bytes())
		m["target_text"] = trunc(fmt.Sprintf("%q", out.Bytes()), 200)
		m["err"] = errStr(res.Err)
		if extra != "" {
			m["note"] = extra
		}
		return m
	}
	ent := pair + "." + entryName
	if res.Bad() {
		x.Violation(ent, res.Symptom(), class, res.Panic+res.Where, wit(""))
		return
	}
	nonFinite := false
	for _, v := range ref.Values {
		if model.HasNonFinite(v) {
			nonFinite = true
		}
	}
	if dst == codecJSON && nonFinite {
		if res.Err == nil {
			x.Violation(ent, "nonfinite-not-refused", class, "JSON target accepted a non-finite float", wit(""))
		}
		x.Count("nonfinite_refused", 1)
		return
	}
	mayReject := false
	for _, v := range ref.Values {
		if model.JSONOutOfRange(v) {
			mayReject = true // C04: literals outside the 64-bit integer / float64 range may be rejected
		}
	}
	if res.Err != nil && mayReject {
		x.Count("out_of_range_rejected", 1)
		return
	}
	if res.Err != nil {
		x.Violation(ent, "valid-source-rejected", class, errStr(res.Err), wit(""))
		return
	}
	tref := refOf(dst, out.Bytes())
	if tref.Status != model.Complete || len(tref.Values) != len(ref.Values) {
		x.Violation(ent, "invalid-target-document", class, fmt.Sprintf("target reference decoder: %v (%s), %d values; source holds %d", tref.Status, tref.Feature, len(tref.Values), len(ref.Values)), wit(""))
		return
	}
	for i := range ref.Values {
		if !model.Equal(ref.Values[i], tref.Values[i], dst.Mode) {
			x.Violation(ent, "wrong-value", class, fmt.Sprintf("source value %s, target value %s", trunc(ref.Values[i].String(), 250), trunc(tref.Values[i].String(), 250)), wit(""))
			return
		}
	}
	x.Count("transcodings_compared", 1)
	// differential: record (copying by-reference strings) and replay into a fresh encoder
	rec := model.NewRecorder()
	if err := src.Parse(doc, rec); err != nil {
		x.Violation(ent, "valid-source-rejected", class, "recording parse: "+err.Error(), wit(""))
		return
	}
	var out2 bytes.Buffer
	enc2 := structform.EnsureExtVisitor(dst.NewEnc(&out2, 0))
	if _, err := model.Drive(enc2, rec.Evs); err != nil {
		x.Violation(ent, "valid-source-rejected", class, "replay: "+err.Error(), wit(""))
		return
	}
	if !bytes.Equal(out.Bytes(), out2.Bytes()) {
		x.Violation(ent, "direct-differs-from-replay", class, "bytes written by the direct parser->encoder connection differ from a replay of the recorded events", wit(fmt.Sprintf("replay: %x", out2.Bytes())))
		return
	}
	x.Count("differential_compared", 1)
	x.Outcome(pair + "|" + fmt.Sprint(out.Len()))
}
