package props

import (
	"bytes"
	"fmt"
	"reflect"

	structform "github.com/elastic/go-structform"
	"github.com/elastic/go-structform/gotype"

	"verif/mc/engine"
	"verif/mc/gen"
	"verif/mc/model"
)

func foldWith(in interface{}, vs structform.Visitor, c *GoCase) error {
	return gotype.Fold(in, vs, c.Opts...)
}

func init() {
	register(func() {
		engine.Register(&engine.Check{
			ID: "C11", Level: "exploration", Risky: true,
			Rule:        "the (Go type, value) space of C12 (generated one-/two-field structs over field types x tag options, plain and wrapped types, compiled seeds incl. named, recursive and unsupported types) x 4 routes {direct Fold->Unfolder, via JSON, via UBJSON, via CBOR encoder+parser}; the value is folded and unfolded into a fresh variable of the same type with the real library; oracle: the documented-mapping model of the result equals that of the original (nil and empty slices/maps identified, omitted-when-empty members may be absent), fields the mapping does not transfer are zero in the result, and types the models call unsupported are refused with an error by Fold, NewUnfolder or SetTarget - never a panic, fatal error or silent difference; a case = (type, value, route); non-trivial = composite type",
			Assumptions: []string{"types limited to reflect.StructOf + compiled seeds; struct types with more than 2 (thorough: 3) fields are not generated", "interface-typed parts are compared through the value model (generic data comes back as map[string]interface{} / []interface{} / wider numbers)"},
			Families:    func(tier string) []engine.Family { return goFamilies(tier, c11Body) },
			Require:     []string{"roundtrips_compared", "refusals_checked"},
		})
	})
}

var noRoundTrip = map[string]bool{"seed:SeedFolderV": true, "seed:SeedFolderP": true, "seed:SeedHolder": true, "seed:SeedInlineFolderV": true,
	"seed:SeedInlineFolderP": true, "seed:SeedInlineIfc": true, "seed:SeedCustomHolder": true, "seed:SeedTags": true, "seed:SeedBuiltinFolders": true, "seed:SeedShapedFolders": true, "seed:SeedInlineNested": true, "seed:SeedFolderIfc": true, "seed:SeedInlineTypedNil": true, "seed:SeedShapeFolder": true}

var routeNames = [...]string{"direct", "json", "ubjson", "cborl"}

func c11Body(x *engine.Exec, c *GoCase) {
	route := x.Choose(4)
	x.Case(fmt.Sprintf("%s|%d", c.Key(), route), c.Fam != "plain")
	x.Sample(func() interface{} {
		m := c.Sample().(map[string]interface{})
		m["route"] = routeNames[route]
		return m
	})
	if !c.V.IsValid() || (c.T.Kind() == reflect.Interface && c.V.IsNil() && c.Fam == "seeds") {
		return
	}
	if noRoundTrip[c.Class] || gen.HasCustomFolder(c.T) || gen.ValueHasCustomFolder(c.V) {
		return // custom folders emit their own shape: not a round-trippable type (C12 covers them)
	}
	entry := "gotype.Fold+Unfold(" + routeNames[route] + ")"
	class := c.Class + ":" + routeNames[route]
	fe := model.RefFold(c.V.Interface())
	usup, uwhy := model.UnfoldSupported(c.T)
	if route == 2 && !fe.Refuse && hasBigUint(fe.V) {
		// witness class of the known finding: UBJSON carries integers above MaxInt64 as decimal strings
		class = "uint64-above-maxint64:ubjson"
	}
	target := reflect.New(c.T)
	var stage string
	var wire []byte
	x.Journal(entry, class, c.Desc)
	res := guard(800000, func() error {
		stage = "NewUnfolder"
		u, err := gotype.NewUnfolder(target.Interface())
		if err != nil {
			return err
		}
		if route == 0 {
			stage = "Fold"
			return gotype.Fold(c.V.Interface(), u, c.Opts...)
		}
		cd := codecs[route-1]
		var buf bytes.Buffer
		stage = "Fold"
		if err := gotype.Fold(c.V.Interface(), cd.NewEnc(&buf, 0), c.Opts...); err != nil {
			return err
		}
		wire = buf.Bytes()
		stage = "Parse"
		return cd.Parse(wire, u)
	})
	wit := func() interface{} {
		m := c.Sample().(map[string]interface{})
		m["route"], m["stage"], m["err"] = routeNames[route], stage, errStr(res.Err)
		m["result"] = trunc(model.Dump(target.Elem().Interface()), 300)
		if wire != nil {
			m["wire"] = hexs(wire)
		}
		if fe.Refuse {
			m["fold_model"] = "refuse: " + fe.Why
		}
		if !usup {
			m["unfold_model"] = "refuse: " + uwhy
		}
		return m
	}
	if res.Bad() {
		x.Violation(entry, res.Symptom(), class, "stage "+stage+": "+res.Panic+res.Where, wit())
		return
	}
	if fe.Refuse || !usup {
		x.Count("refusals_checked", 1)
		if res.Err == nil {
			x.Violation(entry, "unsupported-accepted", class, "the models refuse this type but fold+unfold returned nil", wit())
		}
		x.Outcome("refused")
		return
	}
	if res.Err != nil {
		x.Violation(entry, "supported-refused", class, "stage "+stage+": "+errStr(res.Err), wit())
		return
	}
	x.Count("roundtrips_compared", 1)
	got := model.RefFold(target.Elem().Interface())
	mode := model.Exact
	if route == 1 {
		mode = model.JSON // numbers held by interfaces come back as the number the JSON text denotes
	}
	if got.Refuse || !model.Equal(fe.V, got.V, mode) {
		x.Violation(entry, "wrong-value", class, fmt.Sprintf("original folds to %s, reconstructed value folds to %s", trunc(fe.V.String(), 250), trunc(got.V.String(), 250)), wit())
		return
	}
	if f := model.UntransferredNonZero(target.Elem()); f != "" {
		x.Violation(entry, "untransferred-field-written", class, "field "+f+" is not part of the mapping but is not zero in the result", wit())
		return
	}
	x.Outcome(routeNames[route] + got.V.String())
}

func hasBigUint(v model.Value) bool {
	if v.K == model.VInt && !v.Neg && v.Mag > 1<<63-1 {
		return true
	}
	for _, e := range v.Elems {
		if hasBigUint(e) {
			return true
		}
	}
	return false
}
