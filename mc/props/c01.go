package props

import (
	"bytes"
	"fmt"
	"math"

	structform "github.com/elastic/go-structform"

	"verif/mc/engine"
	"verif/mc/model"
)

// encode drives the stream into a fresh encoder of the case's codec.
func encode(c *StreamCase) ([]byte, Result) {
	var buf bytes.Buffer
	res := guard(int64(20000+400*streamSize(c.Evs)), func() error {
		enc := structform.EnsureExtVisitor(c.Codec.NewEnc(&buf, c.Opts))
		_, err := model.Drive(enc, c.Evs)
		return err
	})
	return buf.Bytes(), res
}

// streamSize is the size of a stream in events + payload bytes (step budgets are linear in it).
func streamSize(evs []model.Event) int {
	n := len(evs)
	for _, e := range evs {
		n += len(e.S)
		if e.K >= model.KBoolArray {
			for _, x := range model.ExpandOne(e) {
				n += 1 + len(x.S)
			}
		}
	}
	return n
}

// parseAll parses a complete document with the codec's one-shot Parse.
func parseAll(cd *Codec, b []byte) (*model.Recorder, Result) {
	rec := model.NewRecorder()
	in := exact(b)
	res := guard(int64(20000+400*len(b)), func() error { return cd.Parse(in, rec) })
	return rec, res
}

func init() {
	register(func() {
		engine.Register(&engine.Check{
			ID:    "C01",
			Level: "exploration",
			Rule:  "every well-formed event stream of the bounded language (all ordered trees up to N nodes over a leaf mini-alphabet; every scalar kind x boundary value x 7 contexts; all strings of <=k atoms + boundary lengths as value and key; container length sweep; all 29 extended events x contents x 7 contexts) x {json,ubjson,cborl} x JSON option sets is encoded by the real encoder and re-parsed by the real parser; a case is the (codec, options, event stream) triple, distinct by its rendering; non-trivial = the stream holds a container, a multi-byte token, a float or an extended event",
			Assumptions: []string{
				"small-scope hypothesis: trees larger than the node bound, scalars outside the boundary alphabet and strings outside the atom alphabet are not explored",
				"map-derived objects are compared as unordered member sets (Go map iteration order is not owned)",
			},
			Families: func(tier string) []engine.Family {
				sweepFloat32 = c01SweepFloat32
				defer func() { sweepFloat32 = nil }()
				return streamFamilies(tier, c01Body)
			},
			Bounds: func(tier string) map[string]interface{} {
				return map[string]interface{}{"max_tree_nodes": tierPick(tier, 5, 6), "leaf_alphabet": tierPick(tier, 3, 4), "string_atoms_max": tierPick(tier, 2, 3), "float32_sweep": tierPick(tier, "alphabet only", "all 2^32 bit patterns x 3 codecs")}
			},
			Require: []string{"roundtrips_compared"},
		})
	})
}

// c01SweepFloat32 round-trips the 2^24 float32 bit patterns with the given top byte through one codec.
func c01SweepFloat32(x *engine.Exec, cd *Codec, hi uint32) {
	x.Case(fmt.Sprintf("float32-sweep|%s|%02x", cd.Name, hi), true)
	x.Sample(func() interface{} {
		return map[string]interface{}{"codec": cd.Name, "float32_bit_patterns": fmt.Sprintf("%#02x000000..%#02xffffff", hi, hi)}
	})
	var buf bytes.Buffer
	rec := model.NewRecorder()
	n := int64(0)
	for lo := uint32(0); lo < 1<<24; lo++ {
		bits := hi<<24 | lo
		f := math.Float32frombits(bits)
		buf.Reset()
		rec.Evs = rec.Evs[:0]
		enc := cd.NewEnc(&buf, 0)
		err := enc.OnFloat32(f)
		nonFinite := f != f || math.IsInf(float64(f), 0)
		if cd == codecJSON && nonFinite {
			if err == nil {
				x.Violation("json.encoder", "nonfinite-not-refused", "float32:sweep", fmt.Sprintf("bits %#x", bits), map[string]interface{}{"bits": bits})
				return
			}
			continue
		}
		if err == nil {
			err = cd.Parse(buf.Bytes(), rec)
		}
		ok := err == nil && len(rec.Evs) == 1
		if ok {
			got, _ := model.ValueOf(rec.Evs)
			ok = model.Equal(model.F32V(bits), got, cd.Mode)
		}
		if !ok {
			x.Violation(cd.Name+".roundtrip", "wrong-value", "float32:sweep", fmt.Sprintf("float32 bits %#x: err %v, events %s, bytes %x", bits, err, model.EventsString(rec.Evs), buf.Bytes()), map[string]interface{}{"bits": bits, "codec": cd.Name})
			return
		}
		n++
	}
	x.Count("+evaluations", n)
	x.Count("+nontrivial", n)
	x.Count("roundtrips_compared", n)
	x.Count("float32_patterns_swept", n)
}

func nontrivialStream(c *StreamCase) bool {
	if len(c.Evs) > 1 {
		return true
	}
	e := c.Evs[0]
	return e.K >= model.KBoolArray || e.K.IsFloat() || e.K.IsInt() || (e.K == model.KString && len(e.S) > 0)
}

func c01Body(x *engine.Exec, c *StreamCase) {
	x.Case(c.Key(), nontrivialStream(c))
	x.Sample(c.Desc)
	entry := c.Codec.Name + ".roundtrip"
	witness := func(extra map[string]interface{}) interface{} {
		m := c.Desc().(map[string]interface{})
		for k, v := range extra {
			m[k] = v
		}
		return m
	}

	out, er := encode(c)
	if er.Bad() {
		x.Violation(c.Codec.Name+".encoder", er.Symptom(), c.Class, er.Panic+er.Where, witness(nil))
		return
	}
	want := c.Want
	if c.Codec == codecJSON && model.HasNonFinite(want) {
		if c.Opts&JIgnoreFloat == 0 {
			if er.Err == nil {
				x.Violation("json.encoder", "nonfinite-not-refused", c.Class, "encoder returned nil for a non-finite float without ignoreInvalidFloat", witness(map[string]interface{}{"bytes": string(out)}))
			}
			x.Outcome("json-nonfinite-refused")
			x.Count("nonfinite_refused", 1)
			return
		}
		want = model.NullNonFinite(want)
	}
	if er.Err != nil {
		x.Violation(c.Codec.Name+".encoder", "error-on-wellformed-stream", c.Class, errStr(er.Err), witness(nil))
		return
	}
	rec, pr := parseAll(c.Codec, out)
	if pr.Bad() {
		x.Violation(c.Codec.Name+".parser", pr.Symptom(), c.Class, pr.Panic+pr.Where, witness(map[string]interface{}{"bytes": hexs(out)}))
		return
	}
	if pr.Err != nil {
		x.Violation(entry, "own-output-rejected", c.Class, errStr(pr.Err), witness(map[string]interface{}{"bytes": hexs(out)}))
		return
	}
	got, err := model.ValueOf(rec.Evs)
	if err != nil {
		x.Violation(entry, "ill-formed-events", c.Class, err.Error(), witness(map[string]interface{}{"bytes": hexs(out), "got_events": model.EventsString(rec.Evs)}))
		return
	}
	x.Count("roundtrips_compared", 1)
	if !model.Equal(want, got, c.Codec.Mode) {
		x.Violation(entry, "wrong-value", c.Class, fmt.Sprintf("want %s got %s", trunc(want.String(), 300), trunc(got.String(), 300)),
			witness(map[string]interface{}{"bytes": hexs(out), "got_events": model.EventsString(rec.Evs)}))
		return
	}
	x.Outcome(c.Codec.Name + ":" + fmt.Sprint(len(out)) + ":" + got.String())
}

func trunc(s string, n int) string {
	if len(s) > n {
		return s[:n] + "…"
	}
	return s
}
