package props

import (
	"fmt"
	"math"
	"strings"
	"sync"

	structform "github.com/elastic/go-structform"

	"verif/mc/engine"
	"verif/mc/gen"
	"verif/mc/model"
)

// StreamCase is one enumerated well-formed event stream together with the codec and options it is run with.
type StreamCase struct {
	Codec *Codec
	Opts  int
	Evs   []model.Event
	Want  model.Value
	Class string // witness class: deterministic function of the input
	Fam   string
}

func (c *StreamCase) Desc() interface{} {
	return map[string]interface{}{"codec": c.Codec.Name, "opts": c.Opts, "events": model.EventsString(c.Evs)}
}

func (c *StreamCase) Key() string {
	return fmt.Sprintf("%s|%d|%s", c.Codec.Name, c.Opts, model.EventsString(c.Evs))
}

// leafClass buckets a scalar event (the witness class of scalar cases).
func leafClass(e model.Event) string {
	switch {
	case e.K.IsSigned():
		if e.I < 0 {
			return fmt.Sprintf("int:neg:%dbit", bitlen(uint64(^e.I)))
		}
		return fmt.Sprintf("int:pos:%dbit", bitlen(uint64(e.I)))
	case e.K.IsInt():
		return fmt.Sprintf("uint:%dbit", bitlen(e.U))
	case e.K == model.KFloat32:
		return "float32:" + floatClass(float64(math.Float32frombits(uint32(e.U))))
	case e.K == model.KFloat64:
		return "float64:" + floatClass(math.Float64frombits(e.U))
	case e.K == model.KString || e.K == model.KKey:
		return "string:" + stringClass(e.S)
	case e.K >= model.KBoolArray:
		return "ext:" + e.K.String() + ":" + extClass(e)
	}
	return e.K.String()
}

func bitlen(u uint64) int {
	n := 0
	for u != 0 {
		n++
		u >>= 1
	}
	// bucket to the codec width classes
	switch {
	case n <= 7:
		return 7
	case n <= 8:
		return 8
	case n <= 15:
		return 15
	case n <= 16:
		return 16
	case n <= 31:
		return 31
	case n <= 32:
		return 32
	case n <= 63:
		return 63
	}
	return 64
}

func floatClass(f float64) string {
	switch {
	case f != f:
		return "nan"
	case math.IsInf(f, 0):
		return "inf"
	case f == 0:
		return "zero"
	case f == math.Trunc(f):
		return "integral"
	}
	return "fraction"
}

func stringClass(s string) string {
	var fs []string
	if s == "" {
		return "empty"
	}
	esc, multi, invalid, ctl := false, false, false, false
	for i := 0; i < len(s); {
		c := s[i]
		if c < 0x80 {
			if c == '"' || c == '\\' {
				esc = true
			}
			if c < 0x20 {
				ctl = true
			}
			i++
			continue
		}
		r, sz := rune(0), 0
		for _, rr := range s[i:] {
			r = rr
			break
		}
		sz = len(string(r))
		if r == 0xFFFD && !strings.HasPrefix(s[i:], "\xef\xbf\xbd") {
			invalid = true
			i++
			continue
		}
		multi = true
		i += sz
	}
	if esc {
		fs = append(fs, "escape")
	}
	if ctl {
		fs = append(fs, "control")
	}
	if multi {
		fs = append(fs, "multibyte")
	}
	if invalid {
		fs = append(fs, "invalid-utf8")
	}
	if len(s) > 64 {
		fs = append(fs, "long")
	}
	if len(fs) == 0 {
		return "ascii"
	}
	return strings.Join(fs, "+")
}

func extClass(e model.Event) string {
	exp := model.ExpandOne(e)
	n := len(exp) - 2
	if e.K.IsExtObj() {
		n /= 2
	}
	switch {
	case n == 0:
		return "empty"
	}
	// widest element
	w := 0
	for _, x := range exp {
		if x.K.IsInt() && !x.K.IsSigned() {
			if b := bitlen(x.U); b > w {
				w = b
			}
		}
	}
	if w == 64 {
		return "nonempty:uint64-above-maxint64"
	}
	return "nonempty"
}

func streamClass(fam string, evs []model.Event) string {
	if len(evs) == 1 {
		return leafClass(evs[0])
	}
	return fam
}

type streamBody func(x *engine.Exec, c *StreamCase)

// streamFamilies enumerates the shared space of well-formed event streams (DESIGN §4):
// tree shapes, scalar sweep, string sweep, length sweep, extended events; each x codec (x JSON options).
func streamFamilies(tier string, run streamBody) []engine.Family {
	maxNodes := tierPick(tier, 5, 6)
	if streamMaxNodes > 0 {
		maxNodes = streamMaxNodes
	}
	nLeaves := tierPick(tier, 3, 4)
	leaves := gen.ScalarLeaves(nLeaves)
	keys := []string{"a", "b"}
	ints := gen.IntEvents()
	floats := gen.FloatEvents()
	scalars := append(append([]model.Event{model.Nil(), model.Bool(true), model.Bool(false)}, ints...), floats...)
	strs := gen.Strings(tierPick(tier, 2, 3), true)
	deepExt := tier == "thorough"
	exts := gen.ExtEvents(deepExt)
	lens := []int{0, 1, 2, 23, 24, 255, 256, 65535, 65536}

	mk := func(x *engine.Exec, fam string, cd *Codec, opts int, evs []model.Event) {
		want, err := model.ValueOf(evs)
		if err != nil {
			engine.Fail("generator produced ill-formed stream: %v: %s", err, model.EventsString(evs))
		}
		c := &StreamCase{Codec: cd, Opts: opts, Evs: evs, Want: want, Fam: fam, Class: streamClass(fam, evs)}
		run(x, c)
	}
	jsonOpts := func(x *engine.Exec, cd *Codec, all bool) int {
		if cd != codecJSON {
			return 0
		}
		if all {
			return x.Choose(8)
		}
		return x.Choose(2) // escapeHTML on/off
	}

	fams := []engine.Family{}
	if sweep := sweepFloat32; tier == "thorough" && sweep != nil {
		// ALL 2^32 float32 bit patterns as a top-level scalar through each codec; one execution sweeps 2^24 patterns
		fams = append(fams, engine.Family{Name: "float32-all-bit-patterns", Arity: []int{3, 256}, Body: func(x *engine.Exec) {
			cd := codecs[x.Choose(3)]
			hi := uint32(x.Choose(256))
			sweep(x, cd, hi)
		}})
	}
	return append(fams, []engine.Family{
		{Name: "trees", Arity: []int{3, nLeaves + 4}, Body: func(x *engine.Exec) {
			cd := codecs[x.Choose(3)]
			t := gen.Tree(x, &gen.TreeOpts{MaxNodes: maxNodes, Leaves: leaves, Keys: keys})
			mk(x, "trees", cd, 0, t.Events(nil))
		}},
		{Name: "scalars", Arity: []int{3, gen.NumContexts}, Body: func(x *engine.Exec) {
			cd := codecs[x.Choose(3)]
			ctx := x.Choose(gen.NumContexts)
			ev := scalars[x.Choose(len(scalars))]
			opts := 0
			if ev.K.IsFloat() {
				opts = jsonOpts(x, cd, true)
			}
			evs := gen.Context(ctx, ev)
			want, _ := model.ValueOf(evs)
			run(x, &StreamCase{Codec: cd, Opts: opts, Evs: evs, Want: want, Fam: "scalars", Class: leafClass(ev)})
		}},
		{Name: "strings", Arity: []int{3, 4}, Body: func(x *engine.Exec) {
			cd := codecs[x.Choose(3)]
			pos := x.Choose(4)
			s := strs[x.Choose(len(strs))]
			opts := jsonOpts(x, cd, false)
			var evs []model.Event
			switch pos {
			case 0:
				evs = []model.Event{model.Str(s)}
			case 1:
				// announced length, the string is neither the only nor the last element
				evs = []model.Event{model.ArrStart(3, structform.AnyType), model.Str(s), model.StrRef(s), model.SInt(model.KInt8, 7), model.ArrEnd()}
			case 2:
				evs = []model.Event{model.ObjStart(-1, structform.AnyType), model.Key(s), model.Str(s), model.Key("z"), model.ArrStart(-1, structform.AnyType), model.StrRef(s), model.Nil(), model.ArrEnd(), model.ObjEnd()}
			default:
				evs = []model.Event{model.ObjStart(3, structform.AnyType), model.KeyRef(s), model.StrRef(s), model.Key("y"), model.Nil(), model.Key("z"), model.StrRef(s), model.ObjEnd()}
			}
			want, _ := model.ValueOf(evs)
			cl := "string:" + stringClass(s)
			if pos >= 2 {
				cl = "key:" + stringClass(s)
			}
			run(x, &StreamCase{Codec: cd, Opts: opts, Evs: evs, Want: want, Fam: "strings", Class: cl})
		}},
		{Name: "lengths", Arity: []int{3}, Body: func(x *engine.Exec) {
			cd := codecs[x.Choose(3)]
			obj := x.Bool()
			known := x.Bool()
			n := lens[x.Choose(len(lens))]
			l := -1
			if known {
				l = n
			}
			var evs []model.Event
			if obj {
				evs = append(evs, model.ObjStart(l, structform.AnyType))
				for i := 0; i < n; i++ {
					evs = append(evs, model.Key("a"), model.Nil())
				}
				evs = append(evs, model.ObjEnd())
			} else {
				evs = append(evs, model.ArrStart(l, structform.AnyType))
				for i := 0; i < n; i++ {
					evs = append(evs, model.SInt(model.KInt8, 1))
				}
				evs = append(evs, model.ArrEnd())
			}
			mk(x, "lengths", cd, 0, evs)
		}},
		{Name: "deep", Arity: []int{3}, Body: func(x *engine.Exec) {
			// nesting across the sizes of the inline stacks (32 / 64 entries) of encoders and parsers and across their first three growth steps
			cd := codecs[x.Choose(3)]
			depth := []int{31, 32, 33, 34, 63, 64, 65, 66, 70, 127, 128, 129, 130, 257}[x.Choose(14)]
			kind := x.Choose(3) // arrays, objects, alternating
			known := x.Bool()
			sib := x.Choose(3) // no sibling; one more element behind the deep child in the outermost container; in every container
			var evs []model.Event
			hasSib := func(i int) bool { return sib == 2 || (sib == 1 && i == 0) }
			isObj := func(i int) bool { return kind == 1 || (kind == 2 && i%2 == 1) }
			for i := 0; i < depth; i++ {
				l := -1
				if known {
					l = 1
					if hasSib(i) {
						l = 2
					}
				}
				if isObj(i) {
					evs = append(evs, model.ObjStart(l, structform.AnyType), model.Key("k"))
				} else {
					evs = append(evs, model.ArrStart(l, structform.AnyType))
				}
			}
			evs = append(evs, model.Str("leaf"))
			for i := depth - 1; i >= 0; i-- {
				if isObj(i) {
					if hasSib(i) {
						evs = append(evs, model.Key("s"), model.SInt(model.KInt8, int64(i%100)))
					}
					evs = append(evs, model.ObjEnd())
				} else {
					if hasSib(i) {
						evs = append(evs, model.SInt(model.KInt8, int64(i%100)))
					}
					evs = append(evs, model.ArrEnd())
				}
			}
			mk(x, "deep", cd, 0, evs)
		}},
		{Name: "ext", Arity: []int{3, gen.NumContexts}, Body: func(x *engine.Exec) {
			cd := codecs[x.Choose(3)]
			ctx := x.Choose(gen.NumContexts)
			ev := exts[x.Choose(len(exts))]
			evs := gen.Context(ctx, ev)
			want, _ := model.ValueOf(evs)
			run(x, &StreamCase{Codec: cd, Opts: 0, Evs: evs, Want: want, Fam: "ext", Class: leafClass(ev)})
		}},
		{Name: "ext-pairs", Arity: []int{3, 2}, Body: func(x *engine.Exec) {
			// every ordered pair of width-boundary values as a two-element typed integer array (an encoder that picks one
			// element width for the whole array must look at both elements, in both orders)
			cd := codecs[x.Choose(3)]
			ctx := []int{0, 1}[x.Choose(2)]
			pairs := extPairsCache()
			ev := pairs[x.Choose(len(pairs))]
			evs := gen.Context(ctx, ev)
			want, _ := model.ValueOf(evs)
			run(x, &StreamCase{Codec: cd, Opts: 0, Evs: evs, Want: want, Fam: "ext-pairs", Class: "ext-pair:" + ev.K.String()})
		}},
		{Name: "ext-sizes", Arity: []int{3, len(extSizes)}, Body: func(x *engine.Exec) {
			// typed arrays and maps of n elements around the length-encoding boundaries of the formats
			cd := codecs[x.Choose(3)]
			n := extSizes[x.Choose(len(extSizes))]
			sized := gen.ExtSizedEvents(n)
			ev := sized[x.Choose(len(sized))]
			evs := gen.Context([]int{0, 1}[x.Choose(2)], ev)
			want, _ := model.ValueOf(evs)
			run(x, &StreamCase{Codec: cd, Opts: 0, Evs: evs, Want: want, Fam: "ext-sizes", Class: fmt.Sprintf("ext-size:%d", n)})
		}},
	}...)
}

var extSizes = []int{23, 24, 25, 127, 128, 255, 256, 257}

var (
	extPairsOnce sync.Once
	extPairsAll  []model.Event
)

func extPairsCache() []model.Event {
	extPairsOnce.Do(func() { extPairsAll = gen.ExtPairEvents() })
	return extPairsAll
}

// streamMaxNodes, when set by a check while it builds its families, overrides the tree size bound.
var streamMaxNodes int

// sweepFloat32, when set by a check, is run by the thorough tier for every (codec, top byte).
var sweepFloat32 func(x *engine.Exec, cd *Codec, hi uint32)
