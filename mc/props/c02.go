package props

import (
	"fmt"

	structform "github.com/elastic/go-structform"

	"verif/mc/engine"
	"verif/mc/model"
)

// all three formats' document families in one list
func allDocFamilies(sc docScope, run docBody) []engine.Family {
	var out []engine.Family
	out = append(out, jsonDocFamilies(sc, run)...)
	out = append(out, cborDocFamilies(sc, run)...)
	out = append(out, ubjDocFamilies(sc, run)...)
	return out
}

// editDoc derives a (mostly invalid) neighbour of a document: one byte deleted, substituted or truncated.
func editDoc(x *engine.Exec, doc []byte) ([]byte, string) {
	if len(doc) == 0 {
		return doc, "none"
	}
	pos := x.Choose(len(doc))
	subst := []byte{0x00, 0xff, '"', '[', ' ', '}', 0x7f, '1'}
	op := x.Choose(2 + len(subst))
	out := append([]byte(nil), doc...)
	switch {
	case op == 0:
		return append(out[:pos], out[pos+1:]...), "delete"
	case op == 1:
		return out[:pos], "truncate"
	default:
		out[pos] = subst[op-2]
		return out, "substitute"
	}
}

var c02cache struct {
	cd   *Codec
	doc  []byte
	ref  model.Ref
	rec0 *model.Recorder
	pr0  Result
}

var warmDocs = map[*Codec][]byte{
	codecJSON:   []byte(`{"w":[1,"x"]}`),
	codecUBJSON: []byte("[#i\x02i\x01Si\x01x"),
	codecCBOR:   {0x82, 0x01, 0x61, 'x'},
}

func init() {
	register(func() {
		engine.Register(&engine.Check{
			ID: "C02", Level: "model_checking",
			Rule:        "documents of the three wire languages (scalars with multi-byte tokens in containers, trees, JSON strings/numbers/whitespace/structure; valid ones and their single-edit invalid neighbours) x chunk schedules (every subset of cut positions for short documents, deviation-bounded cut sets for longer ones, all-single-bytes, strides 2-8, an empty write at every position) x entry points {Write sequence on a fresh parser, Write sequence on a parser that already parsed a document, ParseReader over a reader returning exactly the chosen chunks, with io.EOF separately or together with the last chunk}; every schedule is executed on the real parser and compared with the whole-buffer parse; a case = (document, schedule, entry point); non-trivial = the schedule has at least one cut inside the document",
			Assumptions: []string{"documents longer than the exhaustive-cut bound are explored with a bounded number of cuts (reported as dev_bound)", "direct Write sequences have no public end-of-input: their events must be a prefix of the whole-buffer events lacking at most what end-of-input adds (a trailing JSON number)"},
			Families: func(tier string) []engine.Family {
				sc := docScope{Nodes: 3, UBJTypes: tierPick(tier, 4, 10), JSONTok: tierPick(tier, 3, 4), JSONAtoms: tierPick(tier, 1, 2), NumStride: tierPick(tier, 13, 2), Ctx: tierPick(tier, 3, 5), ScStride: tierPick(tier, 2, 2)}
				full := tierPick(tier, 7, 9)
				dev := tierPick(tier, 2, 3)
				fams := allDocFamilies(sc, func(x *engine.Exec, c *DocCase) { c02Body(x, c, full, false) })
				inv := allDocFamilies(docScope{Nodes: tierPick(tier, 2, 3), UBJTypes: 4, JSONTok: tierPick(tier, 2, 3), JSONAtoms: 1, NumStride: tierPick(tier, 80, 20), Ctx: tierPick(tier, 2, 4), ScStride: tierPick(tier, 6, 2)}, func(x *engine.Exec, c *DocCase) { c02Body(x, c, full, true) })
				drop := func(fs []engine.Family, names ...string) []engine.Family {
					var out []engine.Family
				next:
					for _, f := range fs {
						for _, n := range names {
							if f.Name == n {
								continue next
							}
						}
						out = append(out, f)
					}
					return out
				}
				// the boundary-literal family adds nothing for chunking; long special-length documents are not edited
				fams = drop(fams, "json-int-boundaries")
				inv = drop(inv, "cbor-deeper", "ubj-deeper", "json-deeper", "cbor-deep", "ubj-deep", "json-deep") // 100-1500 bytes: every edit x every cut of these costs 2e7 executions and repeats what the edited small documents show

				inv = drop(inv, "json-int-boundaries", "ubj-marker-lengths", "cbor-break-lengths", "ubj-noop-insertions")
				for i := range inv {
					inv[i].Name += "-edited"
				}
				fams = append(fams, inv...)
				for i := range fams {
					fams[i].Dev = dev
				}
				return fams
			},
			Bounds: func(tier string) map[string]interface{} {
				return map[string]interface{}{"all_cut_sets_up_to_bytes": tierPick(tier, 7, 9), "max_cuts_beyond": tierPick(tier, 2, 3)}
			},
			Require: []string{"schedules_compared", "invalid_verdicts_compared", "cut_inside_token"},
		})
	})
}

func c02Body(x *engine.Exec, c *DocCase, full int, edited bool) {
	cd := c.Codec
	doc := c.Doc
	class := c.Class
	if edited {
		var op string
		doc, op = editDoc(x, doc)
		class = "edited:" + op
	}
	if len(doc) == 0 {
		return
	}
	// the whole-buffer baseline is shared by all schedules of a document (they are explored consecutively)
	if c02cache.cd != cd || string(c02cache.doc) != string(doc) {
		c02cache.cd, c02cache.doc = cd, append([]byte(nil), doc...)
		c02cache.ref = c.Ref
		if edited {
			c02cache.ref = refOf(cd, doc)
		}
		c02cache.rec0, c02cache.pr0 = parseAll(cd, doc)
	}
	ref, rec0, pr0 := c02cache.ref, c02cache.rec0, c02cache.pr0
	if pr0.Bad() {
		x.Count("baseline_crashed", 1) // C03's business
		return
	}
	var chunks [][2]int
	var entry int
	if edited {
		chunks = chooseChunksLight(x, len(doc))
		entry = 2 * x.Choose(2)
	} else if (len(doc) > 64 && x.Tier != "thorough") || len(doc) > 200 || c.Fam == "ubj-noop-insertions" {
		// (also the 1.8e5 no-op insertions: whole, every single cut, single bytes - all cut sets would be 4e8 executions)
		// long documents (deep nesting, marker-valued lengths): whole, every single cut, single bytes
		chunks = chooseChunksLight(x, len(doc))
		entry = x.Choose(4)
	} else {
		chunks = chooseChunks(x, len(doc), full)
		entry = x.Choose(4)
	}
	entryName := [...]string{"Write-sequence", "Write-sequence-reused", "ParseReader", "ParseReader-eof-with-data"}[entry]
	ncuts := 0
	for _, ch := range chunks {
		if ch[0] > 0 && ch[0] < len(doc) && ch[1] > ch[0] {
			ncuts++
		}
	}
	key := make([]byte, 0, len(doc)+2*len(chunks)+8)
	key = append(key, cd.Name[0], byte(entry), byte(len(doc)), byte(len(doc)>>8))
	key = append(key, doc...)
	for _, ch := range chunks {
		key = append(key, byte(ch[1]), byte(ch[1]>>8))
	}
	x.Case(string(key), ncuts > 0)
	if ncuts > 0 {
		x.Count("cut_inside_token", 1)
	}
	desc := func() interface{} {
		return map[string]interface{}{"codec": cd.Name, "hex": hexs(doc), "text": trunc(fmt.Sprintf("%q", doc), 200), "chunks": chunks, "entry": entryName, "ref": ref.Status.String()}
	}
	x.Sample(desc)
	wit := func(rec *model.Recorder, err error) interface{} {
		m := desc().(map[string]interface{})
		m["whole_events"] = model.EventsString(rec0.Evs)
		m["whole_err"] = errStr(pr0.Err)
		m["chunked_events"] = model.EventsString(rec.Evs)
		m["chunked_err"] = errStr(err)
		return m
	}
	budget := int64(20000 + 400*len(doc) + 100*len(chunks))
	rec := model.NewRecorder()
	var res Result
	skip := 0
	switch entry {
	case 0, 1:
		res = guard(budget, func() error {
			w := cd.NewWriter(rec)
			if entry == 1 {
				if _, err := w.Write(append([]byte(nil), warmDocs[cd]...)); err != nil {
					return fmt.Errorf("warm-up document rejected: %v", err)
				}
				skip = len(rec.Evs)
			}
			for _, ch := range chunks {
				scratch := exact(doc[ch[0]:ch[1]])
				_, err := w.Write(scratch)
				for i := range scratch {
					scratch[i] = 0xAA
				}
				if err != nil {
					return err
				}
			}
			return nil
		})
	default:
		res = guard(budget, func() error {
			r := &chunkReader{doc: doc, chunks: copyChunks(chunks), eofWith: entry == 3}
			_, err := cd.ParseReader(r, rec)
			return err
		})
	}
	rec.Evs = rec.Evs[skip:]
	if res.Bad() {
		x.Violation(cd.Name+"."+entryName, res.Symptom(), class, "whole-buffer parse returns normally, this schedule does not: "+res.Panic+res.Where, wit(rec, nil))
		return
	}
	valid := ref.Status == model.Complete
	if entry >= 2 {
		// knows the end of the input: identical events (valid documents) and identical verdict (all documents)
		if (res.Err == nil) != (pr0.Err == nil) {
			x.Violation(cd.Name+"."+entryName, "verdict-depends-on-chunking", class, fmt.Sprintf("whole buffer: %v, chunked: %v", errStr(pr0.Err), errStr(res.Err)), wit(rec, res.Err))
			return
		}
		if valid && !model.SameEvents(rec0.Evs, rec.Evs) {
			x.Violation(cd.Name+"."+entryName, "events-depend-on-chunking", class, "event sequences differ", wit(rec, res.Err))
			return
		}
		if valid {
			x.Count("schedules_compared", 1)
		} else {
			x.Count("invalid_verdicts_compared", 1)
		}
	} else {
		if pr0.Err == nil {
			if res.Err != nil {
				x.Violation(cd.Name+"."+entryName, "verdict-depends-on-chunking", class, fmt.Sprintf("whole buffer accepted, Write sequence failed: %v", res.Err), wit(rec, res.Err))
				return
			}
			missing := len(rec0.Evs) - len(rec.Evs)
			maxMissing := 0
			if cd == codecJSON {
				maxMissing = 1
			}
			if !model.IsPrefix(rec.Evs, rec0.Evs) || missing > maxMissing || (missing == 1 && !rec0.Evs[len(rec0.Evs)-1].K.IsInt() && !rec0.Evs[len(rec0.Evs)-1].K.IsFloat()) {
				x.Violation(cd.Name+"."+entryName, "events-depend-on-chunking", class, "events of the Write sequence are not the whole-buffer events (up to a trailing number)", wit(rec, res.Err))
				return
			}
			x.Count("schedules_compared", 1)
		} else {
			// rejected as a whole: the Write sequence either fails too or is left waiting for more input;
			// its events must still be a prefix of what the whole-buffer parse reported before failing,
			// when the reference calls the document's prefix structure valid
			x.Count("invalid_verdicts_compared", 1)
		}
	}
	x.Outcome(cd.Name + entryName + errStr(res.Err))
}

var _ = structform.AnyType
