package props

import (
	"fmt"
	"unicode/utf8"

	"verif/mc/engine"
	"verif/mc/model"
)

func init() {
	register(func() {
		engine.Register(&engine.Check{
			ID: "C07", Level: "exploration",
			Rule:        "the event-stream language of C01 (trees, scalar sweep, string sweep, length sweep, all extended events; x 3 codecs x JSON option sets) is written by the real encoders; the bytes are judged by the independent reference decoders (refjson/refcbor/refubj): exactly one complete value equal to the stream's value, plus the JSON byte-level rules (valid UTF-8, no raw control characters, no raw <>& under escapeHTML, floats stay floats under explicitRadixPoint, non-finite floats refused or null); distinct by (codec, options, stream), non-trivial as in C01",
			Assumptions: []string{"reference decoders are trusted as the format definitions", "small-scope hypothesis as in C01"},
			Families:    func(tier string) []engine.Family { return streamFamilies(tier, c07Body) },
			Bounds: func(tier string) map[string]interface{} {
				return map[string]interface{}{"max_tree_nodes": tierPick(tier, 5, 6), "leaf_alphabet": tierPick(tier, 3, 4), "string_atoms_max": tierPick(tier, 2, 3)}
			},
			Require: []string{"documents_judged", "json_bytes_checked"},
		})
	})
}

func countKindV(v model.Value, k model.VKind) int {
	n := 0
	if v.K == k {
		n++
	}
	for _, e := range v.Elems {
		n += countKindV(e, k)
	}
	return n
}

func finiteFloatLeaves(evs []model.Event) int {
	n := 0
	for _, e := range model.Expand(evs) {
		if e.K.IsFloat() {
			var v model.Value
			if e.K == model.KFloat32 {
				v = model.F32V(uint32(e.U))
			} else {
				v = model.F64V(e.U)
			}
			if !model.HasNonFinite(v) {
				n++
			}
		}
	}
	return n
}

func c07Body(x *engine.Exec, c *StreamCase) {
	x.Case(c.Key(), nontrivialStream(c))
	x.Sample(c.Desc)
	entry := c.Codec.Name + ".encoder"
	out, er := encode(c)
	witness := func() interface{} {
		m := c.Desc().(map[string]interface{})
		m["bytes"] = hexs(out)
		if c.Codec == codecJSON {
			m["text"] = trunc(string(out), 300)
		}
		return m
	}
	if er.Bad() {
		x.Violation(entry, er.Symptom(), c.Class, er.Panic+er.Where, witness())
		return
	}
	want := c.Want
	if c.Codec == codecJSON && model.HasNonFinite(want) {
		if c.Opts&JIgnoreFloat == 0 {
			if er.Err == nil {
				x.Violation(entry, "nonfinite-not-refused", c.Class, "non-finite float written without error", witness())
			}
			x.Count("nonfinite_refused", 1)
			return
		}
		want = model.NullNonFinite(want)
	}
	if er.Err != nil {
		x.Violation(entry, "error-on-wellformed-stream", c.Class, errStr(er.Err), witness())
		return
	}
	ref := refOf(c.Codec, out)
	x.Count("documents_judged", 1)
	if ref.Status != model.Complete || len(ref.Values) != 1 {
		x.Violation(entry, "invalid-document", c.Class, fmt.Sprintf("reference decoder: %v (%s) at offset %d, %d complete values", ref.Status, ref.Feature, ref.Offset, len(ref.Values)), witness())
		return
	}
	if !model.Equal(want, ref.Values[0], c.Codec.Mode) {
		x.Violation(entry, "wrong-value", c.Class, fmt.Sprintf("stream value %s, reference decoder reads %s", trunc(want.String(), 300), trunc(ref.Values[0].String(), 300)), witness())
		return
	}
	if c.Codec == codecJSON {
		x.Count("json_bytes_checked", 1)
		if !utf8.Valid(out) {
			x.Violation(entry, "invalid-utf8-output", c.Class, "JSON output is not valid UTF-8", witness())
			return
		}
		for _, b := range out {
			if b < 0x20 {
				x.Violation(entry, "raw-control-character", c.Class, fmt.Sprintf("raw byte %#x in JSON output", b), witness())
				return
			}
			if c.Opts&JNoEscapeHTML == 0 && (b == '<' || b == '>' || b == '&') {
				x.Violation(entry, "raw-html-character", c.Class, fmt.Sprintf("raw %q with HTML escaping on", b), witness())
				return
			}
		}
		if c.Opts&JRadixPoint != 0 {
			nf := finiteFloatLeaves(c.Evs)
			if got := countKindV(ref.Values[0], model.VF64); got != nf {
				x.Violation(entry, "float-reparsed-as-integer", c.Class, fmt.Sprintf("%d finite float events, reference decoder classifies %d literals as floats", nf, got), witness())
				return
			}
			rec, pr := parseAll(codecJSON, out)
			k := 0
			for _, e := range rec.Evs {
				if e.K == model.KFloat64 {
					k++
				}
			}
			if pr.Err != nil || k != nf {
				x.Violation(entry, "float-reparsed-as-integer", c.Class, fmt.Sprintf("%d finite float events, own parser reports %d float events (err %v)", nf, k, pr.Err), witness())
				return
			}
			x.Count("radix_point_checked", 1)
		}
	}
	x.Outcome(c.Codec.Name + ":" + ref.Values[0].String())
}
