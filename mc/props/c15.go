package props

import (
	"bytes"
	"fmt"
	"io"
	"reflect"
	"runtime"
	"runtime/debug"
	"strings"

	structform "github.com/elastic/go-structform"
	"github.com/elastic/go-structform/gotype"
	"github.com/elastic/go-structform/verifrt"

	"verif/mc/engine"
	"verif/mc/gen"
	"verif/mc/model"
)

func init() {
	register(func() {
		engine.Register(&engine.Check{
			ID: "C15", Level: "model_checking",
			Rule:        "documents holding strings and keys of 1, 2, 63, 64, 65 and 200 bytes (with and without escapes / multi-byte runes) in the three wire formats x chunk schedules (every cut set for short documents, deviation-bounded beyond, single bytes, strides; the chunking decides whether a string is handed over from the caller's buffer, the parser's internal buffer or fresh memory) x entry points {Parser.Write, ParseReader, reader Decoder (whose read buffer is reused by construction), byte-slice Decoder, Write(head) followed by Parse(tail) or ParseString(tail) on the same parser} x targets {interface{}, map[string]string, []string, struct with string fields, map[string]interface{} with key cache} x a follow-up document of equal or different length that reuses the buffers x ONE garbage collection at event boundary g for every g (thorough: also at every 11th instrumented point - function entry or loop iteration - inside the library); the harness hands every chunk out in a scratch slice and overwrites it with 0xAA as soon as Write/Read returns; built with checkptr, run with GODEBUG=clobberfree=1, automatic GC off (a collection happens only where the explorer puts one); oracle: the target rendered right after the first document == after scribbling == after the follow-up document == after a final forced GC == the result of a clean whole-buffer run; the fold side (Fold -> encoder) under the same GC schedule writes the same bytes; a case = (document, target, entry, schedule, GC position)",
			Assumptions: []string{"an alias is visible only if the aliased bytes are overwritten afterwards: the harness overwrites every buffer it owns and forces reuse of internal buffers with follow-up tokens of at least the same length", "memory safety is observed (checkptr, clobberfree, value comparison), not proved"},
			Families:    c15Families,
			Bounds: func(tier string) map[string]interface{} {
				return map[string]interface{}{"all_cut_sets_up_to_bytes": tierPick(tier, 6, 9), "max_cuts_beyond": tierPick(tier, 1, 2), "gc_positions": "every event boundary (deviation bound 1)"}
			},
			Require: []string{"unfold_runs_compared", "gc_injected", "fold_gc_compared", "string_from_internal_buffer"},
		})
	})
}

type c15Doc struct {
	cd        *Codec
	doc, next []byte // document and follow-up
	class     string
}

func c15Strings() []string {
	var out []string
	for _, l := range []int{1, 2, 63, 64, 65, 200} {
		out = append(out, strings.Repeat("x", l))
	}
	out = append(out, "é", strings.Repeat("é", 32), "a\"b", strings.Repeat("q", 62)+"\n\t")
	return out
}

func jsonQuote(s string) string {
	var sb strings.Builder
	sb.WriteByte('"')
	for _, r := range s {
		switch r {
		case '"':
			sb.WriteString(`\"`)
		case '\n':
			sb.WriteString(`\n`)
		case '\t':
			sb.WriteString(`\t`)
		default:
			sb.WriteRune(r)
		}
	}
	sb.WriteByte('"')
	return sb.String()
}

// c15EncodeB renders {"<k>":{"a":"<v>"},"<k>2":null,"c":{"a":"<k>"}} (values that reflected map targets accept: objects and null).
func c15EncodeB(cd *Codec, k, v string) []byte {
	switch cd {
	case codecJSON:
		return []byte(fmt.Sprintf(`{%s:{"a":%s},%s:null,"c":{"a":%s}}`, jsonQuote(k), jsonQuote(v), jsonQuote(k+"2"), jsonQuote(k)))
	case codecCBOR:
		txt := func(s string) []byte {
			return append(gen.CBORHead(3, uint64(len(s)), gen.CBORWidths(uint64(len(s)))[0]), s...)
		}
		return cat2([]byte{0xa3}, txt(k), []byte{0xa1}, txt("a"), txt(v), txt(k+"2"), []byte{0xf6}, txt("c"), []byte{0xa1}, txt("a"), txt(k))
	default:
		str := func(s string, marker bool) []byte {
			var b []byte
			if marker {
				b = append(b, 'S')
			}
			return append(append(b, gen.UBJLen(gen.UBJLenMarkers(len(s))[0], len(s))...), s...)
		}
		return cat2([]byte{'{'}, str(k, false), []byte{'{'}, str("a", false), str(v, true), []byte{'}'}, str(k+"2", false), []byte{'Z'}, str("c", false), []byte{'{'}, str("a", false), str(k, true), []byte{'}', '}'})
	}
}

// c15Encode renders {"<k>":"<v>","b":["<v>","<k>"]} in the given format.
func c15Encode(cd *Codec, k, v string) []byte {
	switch cd {
	case codecJSON:
		return []byte(fmt.Sprintf(`{%s:%s,"b":[%s,%s]}`, jsonQuote(k), jsonQuote(v), jsonQuote(v), jsonQuote(k)))
	case codecCBOR:
		txt := func(s string) []byte {
			return append(gen.CBORHead(3, uint64(len(s)), gen.CBORWidths(uint64(len(s)))[0]), s...)
		}
		return cat2([]byte{0xa2}, txt(k), txt(v), txt("b"), []byte{0x82}, txt(v), txt(k))
	default:
		str := func(s string, marker bool) []byte {
			var b []byte
			if marker {
				b = append(b, 'S')
			}
			return append(append(b, gen.UBJLen(gen.UBJLenMarkers(len(s))[0], len(s))...), s...)
		}
		return cat2([]byte{'{'}, str(k, false), str(v, true), str("b", false), []byte{'['}, str(v, true), str(k, true), []byte{']', '}'})
	}
}

type c15Inner struct {
	P *string `struct:"xxxxxxxxxxxxxxxxxxxxxxxxxxxxxxxxxxxxxxxxxxxxxxxxxxxxxxxxxxxxxxx"` // the 63-byte key
}

type c15Struct struct {
	A string            `struct:"a"`
	B []string          `struct:"b"`
	M map[string]string `struct:",inline"`
}

type c15Elem struct {
	A string `struct:"a"`
}

// targets of the second document shape: maps handled by the reflection-based map unfolder, and a one-entry key cache
func c15TargetB(kind int) (interface{}, int) {
	switch kind {
	case 0:
		return &map[string]c15Elem{}, 0
	case 1:
		return &map[string]*c15Elem{}, 0
	case 2:
		return &map[string]map[string]string{}, 0
	case 3:
		return &map[string]interface{}{}, 1
	default:
		return &map[string]*c15Elem{}, 2
	}
}

func c15Target(kind int) (interface{}, bool) {
	switch kind {
	case 0:
		return new(interface{}), false
	case 1:
		return &map[string]interface{}{}, false
	case 2:
		return &map[string]interface{}{}, true // with key cache
	case 3:
		return &struct {
			B []string `struct:"b"`
			K string   `struct:"k"`
			I c15Inner `struct:",inline"`
		}{}, false
	default:
		return &struct {
			B []string `struct:"b"`
		}{}, false
	}
}

const c15Targets = 5

var c15Runs int

func c15Families(tier string) []engine.Family {
	strs := c15Strings()
	full := tierPick(tier, 6, 9)
	dev := tierPick(tier, 1, 2)
	var fams []engine.Family
	for _, cd := range codecs {
		cd := cd
		fams = append(fams, engine.Family{Name: "unfold-" + cd.Name, Arity: []int{len(strs), 6, c15Targets}, Dev: dev, Body: func(x *engine.Exec) {
			s := strs[x.Choose(len(strs))]
			entry := x.Choose(6)
			tk := x.Choose(c15Targets)
			keyIsLong := x.Bool()
			k, v := "k", s
			if keyIsLong {
				k, v = s, "v"
			}
			doc := c15Encode(cd, k, v)
			// follow-up of the same shape with different bytes of the same length, or a shorter one
			var next []byte
			if x.Bool() {
				next = c15Encode(cd, strings.Map(func(r rune) rune { return 'Z' }, k), strings.Map(func(r rune) rune { return 'Y' }, v))
			} else {
				next = c15Encode(cd, "n", "m")
			}
			c15Unfold(x, cd, doc, next, entry, tk, full, fmt.Sprintf("len%d", len(s)))
		}})
	}
	for _, cd := range codecs {
		cd := cd
		// second document shape: member values are objects and null, targets are maps with struct / pointer / map elements
		// (reflection-based map unfolder) and maps behind a key cache of 1 and 2 entries (three distinct keys per document)
		fams = append(fams, engine.Family{Name: "unfold-maps-" + cd.Name, Arity: []int{len(strs), 6, 5}, Dev: dev, Body: func(x *engine.Exec) {
			s := strs[x.Choose(len(strs))]
			entry := x.Choose(6)
			tk := x.Choose(5)
			keyIsLong := x.Bool()
			k, v := "k", s
			if keyIsLong {
				k, v = s, "v"
			}
			doc := c15EncodeB(cd, k, v)
			var next []byte
			if x.Bool() {
				next = c15EncodeB(cd, strings.Map(func(r rune) rune { return 'Z' }, k), strings.Map(func(r rune) rune { return 'Y' }, v))
			} else {
				next = c15EncodeB(cd, "n", "m")
			}
			c15UnfoldT(x, cd, doc, next, entry, 100+tk, full, fmt.Sprintf("maps:len%d", len(s)), func() (interface{}, int) { return c15TargetB(tk) })
		}})
	}
	fams = append(fams, engine.Family{Name: "fold-gc", Dev: 1, Body: func(x *engine.Exec) {
		vals := append(append([]interface{}{}, c16FoldValues...), c17FoldValues...)
		vi := x.Choose(len(vals))
		cd := codecs[x.Choose(3)]
		c15Fold(x, cd, vals[vi], vi, nil)
	}})
	// the compiled seed values of the Go space (named types, Folder / IsZeroer implementations, folders registered for
	// structs, built-in types and pointer-shaped types - the folders reached through unsafe conversions) under the same GC schedule
	sd := seeds()
	fams = append(fams, engine.Family{Name: "fold-gc-seeds", Arity: []int{len(sd)}, Dev: 1, Body: func(x *engine.Exec) {
		si := x.Choose(len(sd))
		s := sd[si]
		vi := x.Choose(len(s.vals))
		cd := codecs[x.Choose(3)]
		c15Fold(x, cd, s.vals[vi], 1000*(si+1)+vi, s.opts)
	}})
	return fams
}

func c15Housekeeping() {
	c15Runs++
	if c15Runs == 1 {
		debug.SetGCPercent(-1) // a collection happens only where the explorer puts one
	}
	if c15Runs%500 == 0 {
		runtime.GC()
	}
}

func c15Unfold(x *engine.Exec, cd *Codec, doc, next []byte, entry, tk, full int, class string) {
	c15UnfoldT(x, cd, doc, next, entry, tk, full, class, func() (interface{}, int) {
		t, c := c15Target(tk)
		if c {
			return t, 2
		}
		return t, 0
	})
}

func c15UnfoldT(x *engine.Exec, cd *Codec, doc, next []byte, entry, tk, full int, class string, mkTarget func() (interface{}, int)) {
	c15Housekeeping()
	entryName := [...]string{"Parser.Write", "ParseReader", "ReaderDecoder", "BytesDecoder", "Parser.Write(head)+Parse(tail)", "Parser.Write(head)+ParseString(tail)"}[entry]
	// clean reference run
	cleanT, _ := mkTarget()
	cleanT2, _ := mkTarget()
	events := model.NewRecorder()
	clean := guard(int64(400000+1000*len(doc)), func() error {
		cu, err := gotype.NewUnfolder(cleanT)
		if err != nil {
			return err
		}
		if err := cd.Parse(exact(doc), cu); err != nil {
			return err
		}
		cu2, err := gotype.NewUnfolder(cleanT2)
		if err != nil {
			return err
		}
		if err := cd.Parse(exact(next), cu2); err != nil {
			return err
		}
		return cd.Parse(exact(doc), events)
	})
	if clean.Bad() || clean.Err != nil {
		// the clean whole-buffer run of a valid document into a supported target fails: nothing to compare with
		x.Case(fmt.Sprintf("clean|%s|%x|%d", cd.Name, doc, tk), true)
		x.Violation(cd.Name+".Parse->Unfolder", "valid-document-rejected", class, "clean whole-buffer run: "+clean.Panic+errStr(clean.Err), map[string]interface{}{"codec": cd.Name, "doc": trunc(fmt.Sprintf("%q", doc), 160), "target": fmt.Sprintf("%T", cleanT)})
		return
	}
	want := model.Dump(cleanT)
	want2 := model.Dump(cleanT2)
	E := len(events.Evs)

	var chunks [][2]int
	if entry != 3 {
		chunks = c15Chunks(x, len(doc), full)
	}
	if entry >= 4 && (len(chunks) < 2 || cd == codecJSON) {
		// the mixed entry points need a head and a tail; json.Parser.Parse starts a new document (it resets the parser),
		// so it cannot complete what Write began
		return
	}
	gcAt := x.Dev(E+1) - 1 // -1: no GC
	stepGC := int64(0)
	if x.Tier == "thorough" && gcAt < 0 {
		// a collection at an instrumented point inside the library: every 11th function entry / loop iteration of the run
		// (the clean run's step count bounds the positions; its two unfolders and the recorder make it an upper bound)
		if k := x.Dev(int(clean.Steps/11) + 1); k > 0 {
			stepGC = int64(k) * 11
		}
	}
	t1, cacheCap := mkTarget()
	t2, _ := mkTarget()
	cache := cacheCap > 0
	x.Case(fmt.Sprintf("%s|%x|%d|%d|%d|%v|%d|%d", cd.Name, doc, len(next), entry, tk, chunks, gcAt, stepGC), true)
	desc := func() interface{} {
		return map[string]interface{}{"codec": cd.Name, "doc": trunc(fmt.Sprintf("%q", doc), 120), "entry": entryName, "target": fmt.Sprintf("%T", t1), "key_cache": cache, "chunks": chunks, "gc_before_event": gcAt, "gc_at_step": stepGC}
	}
	x.Sample(desc)
	var snap1, snap2, snap3, snapNext string
	sawInternal := false
	budget := int64(400000 + 1000*(len(doc)+len(next)))
	res := guard(budget, func() error {
		u, err := gotype.NewUnfolder(t1)
		if err != nil {
			return err
		}
		if cache {
			u.EnableKeyCache(cacheCap)
		}
		tap := &model.Tap{ExtVisitor: structform.EnsureExtVisitor(u), Before: func(n int) {
			if n == gcAt {
				runtime.GC()
				x.Count("gc_injected", 1)
			}
		}}
		if stepGC > 0 {
			verifrt.Hook = func() {
				if verifrt.Steps() == stepGC {
					runtime.GC()
					x.Count("gc_injected", 1)
				}
			}
			defer func() { verifrt.Hook = nil }()
		}
		feedWrite := func(w io.Writer, d []byte, cs [][2]int) error {
			for _, ch := range cs {
				scratch := exact(d[ch[0]:ch[1]])
				_, err := w.Write(scratch)
				for i := range scratch {
					scratch[i] = 0xAA
				}
				if err != nil {
					return err
				}
			}
			return nil
		}
		whole := func(d []byte) [][2]int { return [][2]int{{0, len(d)}} }
		second := func(f func() error) error {
			snap1 = model.Dump(t1)
			tap.Before = nil
			verifrt.Hook = nil
			if err := u.SetTarget(t2); err != nil {
				return err
			}
			if err := f(); err != nil {
				return fmt.Errorf("follow-up document: %v", err)
			}
			snap2 = model.Dump(t1)
			return nil
		}
		switch entry {
		case 0:
			w := cd.NewWriter(tap)
			if err := feedWrite(w, doc, chunks); err != nil {
				return err
			}
			if len(chunks) > 1 {
				sawInternal = true
			}
			if err := second(func() error { return feedWrite(w, next, whole(next)) }); err != nil {
				return err
			}
		case 4, 5:
			// one parser: all chunks but the last through Write (scribbled), the last one through Parse / ParseString; the
			// follow-up document arrives in single bytes, which sends its strings through the parser's internal buffer
			p := cd.NewParser(tap)
			w := p.(io.Writer)
			last := len(chunks) - 1
			if err := feedWrite(w, doc, chunks[:last]); err != nil {
				return err
			}
			tail := exact(doc[chunks[last][0]:chunks[last][1]])
			var err error
			if entry == 4 {
				err = cd.ParseWith(p, tail)
				for i := range tail {
					tail[i] = 0xAA
				}
			} else {
				err = cd.ParseStrWith(p, string(tail))
			}
			if err != nil {
				return err
			}
			sawInternal = true
			var bytewise [][2]int
			for i := range next {
				bytewise = append(bytewise, [2]int{i, i + 1})
			}
			if err := second(func() error { return feedWrite(w, next, bytewise) }); err != nil {
				return err
			}
		case 1:
			r := &chunkReader{doc: doc, chunks: copyChunks(chunks)}
			if _, err := cd.ParseReader(r, tap); err != nil {
				return err
			}
			r.Read(make([]byte, 1)) // scribbles the last chunk handed out
			sawInternal = len(chunks) > 1
			if err := second(func() error {
				_, err := cd.ParseReader(&chunkReader{doc: next, chunks: whole(next)}, tap)
				return err
			}); err != nil {
				return err
			}
		case 2:
			sep := []byte{}
			if cd == codecJSON {
				sep = []byte{'\n'}
			}
			stream := cat2(doc, sep, next, sep)
			cs := copyChunks(chunks)
			cs = append(cs, [2]int{len(doc), len(stream)})
			d := cd.ReaderDec(&chunkReader{doc: stream, chunks: cs}, 16, tap)
			if err := d.Next(); err != nil {
				return err
			}
			sawInternal = true
			if err := second(func() error { return d.Next() }); err != nil {
				return err
			}
		default:
			sep := []byte{}
			if cd == codecJSON {
				sep = []byte{'\n'}
			}
			stream := cat2(doc, sep, next, sep)
			d := cd.BytesDec(stream, tap)
			if err := d.Next(); err != nil {
				return err
			}
			snap1 = model.Dump(t1)
			tap.Before = nil
			if err := u.SetTarget(t2); err != nil {
				return err
			}
			if err := d.Next(); err != nil {
				return fmt.Errorf("follow-up document: %v", err)
			}
			// the decoder is done with the caller's buffer: overwrite all of it
			for i := range stream {
				stream[i] = 0xAA
			}
			snap2 = model.Dump(t1)
		}
		runtime.GC() // with clobberfree=1 anything freed although still referenced is overwritten now
		snap3 = model.Dump(t1)
		snapNext = model.Dump(t2)
		return nil
	})
	if sawInternal {
		x.Count("string_from_internal_buffer", 1)
	}
	wit := func() interface{} {
		m := desc().(map[string]interface{})
		m["err"] = errStr(res.Err)
		m["clean_run"], m["after_first_document"], m["after_followup"], m["after_gc"] = trunc(want, 200), trunc(snap1, 200), trunc(snap2, 200), trunc(snap3, 200)
		m["followup_clean_run"], m["followup_after_gc"] = trunc(want2, 200), trunc(snapNext, 200)
		return m
	}
	ent := cd.Name + "." + entryName + "->Unfolder"
	if res.Bad() {
		x.Violation(ent, res.Symptom(), class, res.Panic+res.Where, wit())
		return
	}
	if res.Err != nil {
		x.Violation(ent, "valid-document-rejected", class, errStr(res.Err), wit())
		return
	}
	x.Count("unfold_runs_compared", 1)
	switch {
	case snap1 != want:
		x.Violation(ent, "result-depends-on-schedule-or-gc", class, "result right after the first document differs from the clean whole-buffer run", wit())
	case snap2 != snap1:
		x.Violation(ent, "alias", class, "stored value changed after the source buffers were overwritten and a follow-up document was processed", wit())
	case snap3 != snap1:
		x.Violation(ent, "use-after-free", class, "stored value changed after a garbage collection", wit())
	case snapNext != want2:
		x.Violation(ent, "alias", class+":follow-up", "the value built from the follow-up document differs from its clean run after the source buffers were overwritten", wit())
	default:
		x.Outcome(ent + fmt.Sprint(len(snap1)))
	}
}

func c15Fold(x *engine.Exec, cd *Codec, v interface{}, vi int, opts []gotype.FoldOption) {
	c15Housekeeping()
	var clean bytes.Buffer
	if r := guard(2000000, func() error { return gotype.Fold(v, cd.NewEnc(&clean, 0), opts...) }); r.Bad() || r.Err != nil {
		return // refused or crashing without any GC: C11 / C12 judge that
	}
	cnt := &model.Tap{ExtVisitor: structform.EnsureExtVisitor(cd.NewEnc(io.Discard, 0))}
	gotype.Fold(v, cnt, opts...)
	E := cnt.N
	gcAt := x.Dev(E+1) - 1
	x.Case(fmt.Sprintf("fold|%s|%d|%d", cd.Name, vi, gcAt), true)
	x.Sample(func() interface{} {
		return map[string]interface{}{"fold_value": fmt.Sprintf("%T", v), "codec": cd.Name, "gc_before_event": gcAt}
	})
	var out bytes.Buffer
	res := guard(2000000, func() error {
		tap := &model.Tap{ExtVisitor: structform.EnsureExtVisitor(cd.NewEnc(&out, 0)), Before: func(n int) {
			if n == gcAt {
				runtime.GC()
				x.Count("gc_injected", 1)
			}
		}}
		return gotype.Fold(v, tap, opts...)
	})
	if res.Bad() || res.Err != nil {
		x.Violation("gotype.Fold->"+cd.Name, "gc-"+res.Symptom()+"error", fmt.Sprintf("%T", v), res.Panic+errStr(res.Err), map[string]interface{}{"value": fmt.Sprintf("%T", v), "gc_before_event": gcAt})
		return
	}
	x.Count("fold_gc_compared", 1)
	if !sameDocs(cd, clean.Bytes(), out.Bytes()) {
		x.Violation("gotype.Fold->"+cd.Name, "result-depends-on-gc", fmt.Sprintf("%T", v), "bytes written differ from the run without GC", map[string]interface{}{"value": fmt.Sprintf("%T", v), "gc_before_event": gcAt, "clean": hexs(clean.Bytes()), "with_gc": hexs(out.Bytes())})
	}
}

// sameDocs compares two encodings as values (map iteration order is not owned).
func sameDocs(cd *Codec, a, b []byte) bool {
	if bytes.Equal(a, b) {
		return true
	}
	ra, rb := refOf(cd, a), refOf(cd, b)
	if ra.Status != model.Complete || rb.Status != model.Complete || len(ra.Values) != len(rb.Values) {
		return false
	}
	for i := range ra.Values {
		va, vb := ra.Values[i], rb.Values[i]
		markUnordered(&va)
		markUnordered(&vb)
		if !model.Equal(va, vb, model.Exact) {
			return false
		}
	}
	return true
}

var _ = reflect.TypeOf

// c15Chunks: like chooseChunks, but for long documents the cut positions are restricted to the
// places where buffer hand-over decisions change: the first and last bytes, and around every
// multiple of 64 (the parsers' inline buffers); C02 explores chunking as such.
func c15Chunks(x *engine.Exec, n, full int) [][2]int {
	if n <= 48 {
		return chooseChunks(x, n, full)
	}
	mode := x.Choose(3)
	switch mode {
	case 1:
		out := make([][2]int, 0, n)
		for i := 0; i < n; i++ {
			out = append(out, [2]int{i, i + 1})
		}
		return out
	case 2:
		st := []int{7, 64}[x.Choose(2)]
		var out [][2]int
		for i := 0; i < n; i += st {
			e := i + st
			if e > n {
				e = n
			}
			out = append(out, [2]int{i, e})
		}
		return out
	}
	cand := map[int]bool{}
	for i := 1; i <= 6 && i < n; i++ {
		cand[i] = true
		cand[n-i] = true
	}
	for k := 64; k < n; k += 64 {
		for d := -1; d <= 2; d++ {
			if k+d > 0 && k+d < n {
				cand[k+d] = true
			}
		}
	}
	var out [][2]int
	start := 0
	for i := 1; i < n; i++ {
		if cand[i] && x.Dev(2) == 1 {
			out = append(out, [2]int{start, i})
			start = i
		}
	}
	return append(out, [2]int{start, n})
}
