package props

import (
	"bytes"
	"fmt"
	"os"
	"os/exec"
	"reflect"
	"strings"
	"sync"

	structform "github.com/elastic/go-structform"
	"github.com/elastic/go-structform/gotype"
	"github.com/elastic/go-structform/verifrt"

	"verif/mc/engine"
	"verif/mc/model"
)

// shared Go types and shared input data of the concurrent bodies
type c19Plain struct {
	A string  `struct:"a"`
	B []int   `struct:"b"`
	C float64 `struct:"c"`
}
type c19InlineIfc struct {
	Name string      `struct:"name"`
	I    interface{} `struct:",inline"`
}
type c19Zero struct {
	Z SeedZeroV         `struct:"z,omitempty"`
	P *SeedZeroP        `struct:"p,omitempty"`
	M map[string]string `struct:"m,omitempty"`
	S string            `struct:"s,omitempty"`
}
type c19Nested struct {
	In  c19Plain            `struct:"in"`
	Ptr *c19Plain           `struct:"ptr"`
	L   []c19Plain          `struct:"l"`
	M   map[string]c19Plain `struct:"m"`
}

var c19Values = []interface{}{
	c19Plain{A: "a\"é", B: []int{1, -2, 300}, C: 1.5},
	c19InlineIfc{Name: "n", I: map[string]interface{}{"k": []interface{}{1, "x"}}},
	c19InlineIfc{Name: "n", I: c19Plain{A: "inl"}},
	c19Zero{Z: SeedZeroV{1}, P: &SeedZeroP{0}, M: map[string]string{"k": "v"}},
	map[string]interface{}{"only": []interface{}{true, nil, 2.5, "s"}},
	SeedFolderV{7},
	c19Nested{In: c19Plain{A: "x"}, Ptr: &c19Plain{B: []int{1}}, L: []c19Plain{{C: 2}}, M: map[string]c19Plain{"k": {A: "m"}}},
	[]interface{}{c19Plain{A: "s"}, &c19Zero{S: "q"}, []string{"a", "b"}, map[string]int{"one": 1}},
}

// c19Kinds has a slice and a map of every primitive kind (and of interface{}, nested slices and maps): unfolding it
// goes through every per-kind unfolder singleton of the library, which all Unfolders of the process share.
type c19Kinds struct {
	B   []bool
	S   []string
	U   []uint
	U8  []uint8
	U16 []uint16
	U32 []uint32
	U64 []uint64
	I   []int
	I8  []int8
	I16 []int16
	I32 []int32
	I64 []int64
	F32 []float32
	F64 []float64
	X   []interface{}
	MB  map[string]bool
	MS  map[string]string
	MU  map[string]uint
	MU8 map[string]uint8
	M16 map[string]uint16
	M32 map[string]uint32
	M64 map[string]uint64
	MI  map[string]int
	MI8 map[string]int8
	N16 map[string]int16
	N32 map[string]int32
	N64 map[string]int64
	MF3 map[string]float32
	MF6 map[string]float64
	MX  map[string]interface{}
	NN  [][]int
	MM  map[string]map[string]string
	Z   int
}

// c19FillKinds fills every field with two elements (slices) or one entry (maps; one entry keeps the number of
// scheduling points independent of map iteration order) derived from seed.
func c19FillKinds(seed int) c19Kinds {
	var k c19Kinds
	v := reflect.ValueOf(&k).Elem()
	var fill func(f reflect.Value, n int)
	fill = func(f reflect.Value, n int) {
		switch f.Kind() {
		case reflect.Bool:
			f.SetBool(n%2 == 0)
		case reflect.String:
			f.SetString(fmt.Sprintf("s%d", n))
		case reflect.Int, reflect.Int8, reflect.Int16, reflect.Int32, reflect.Int64:
			f.SetInt(int64(n%100) - 50)
		case reflect.Uint, reflect.Uint8, reflect.Uint16, reflect.Uint32, reflect.Uint64:
			f.SetUint(uint64(n % 100))
		case reflect.Float32, reflect.Float64:
			f.SetFloat(float64(n) + 0.5)
		case reflect.Interface:
			f.Set(reflect.ValueOf(fmt.Sprintf("i%d", n)))
		case reflect.Slice:
			s := reflect.MakeSlice(f.Type(), 2, 2)
			fill(s.Index(0), n+1)
			fill(s.Index(1), n+2)
			f.Set(s)
		case reflect.Map:
			m := reflect.MakeMap(f.Type())
			e := reflect.New(f.Type().Elem()).Elem()
			fill(e, n+3)
			m.SetMapIndex(reflect.ValueOf(fmt.Sprintf("k%d", n)), e)
			f.Set(m)
		}
	}
	for i := 0; i < v.NumField(); i++ {
		fill(v.Field(i), seed*7+i)
	}
	return k
}

var c19KindsDocs = map[*Codec]*[2][]byte{codecJSON: {}, codecUBJSON: {}, codecCBOR: {}}

// shared input documents (the same backing bytes are read by all threads)
var c19Docs = map[*Codec][]byte{}

func c19Init() {
	if len(c19Docs) > 0 {
		return
	}
	for _, cd := range codecs {
		var buf bytes.Buffer
		if err := gotype.Fold(c19Values[6], cd.NewEnc(&buf, 0)); err != nil {
			panic(err)
		}
		c19Docs[cd] = buf.Bytes()
		for i := 0; i < 2; i++ {
			var kb bytes.Buffer
			if err := gotype.Fold(c19FillKinds(i+1), cd.NewEnc(&kb, 0)); err != nil {
				panic(err)
			}
			c19KindsDocs[cd][i] = kb.Bytes()
		}
		for i, v := range c19LongValues {
			var lb bytes.Buffer
			if err := gotype.Fold(v, cd.NewEnc(&lb, 0)); err != nil {
				panic(err)
			}
			c19LongDocs[cd][i] = lb.Bytes()
		}
	}
}

// documents whose strings and keys are long (beyond the parsers' fixed scratch buffers) and need unescaping in
// JSON; two documents of the same shape with different content, so that a buffer shared between two parsers shows
var c19LongValues = [2]interface{}{
	map[string]interface{}{"key-1-" + strings.Repeat("k", 60) + "\n": []interface{}{"v1\"" + strings.Repeat("a", 70), "short\t1", strings.Repeat("p", 40) + "\\" + strings.Repeat("q", 30)}},
	map[string]interface{}{"KEY-2-" + strings.Repeat("K", 60) + "\n": []interface{}{"V2\"" + strings.Repeat("b", 70), "SHORT\t2", strings.Repeat("r", 40) + "\\" + strings.Repeat("s", 30)}},
}
var c19LongDocs = map[*Codec]*[2][]byte{codecJSON: {}, codecUBJSON: {}, codecCBOR: {}}

// a body builds its own instances, runs, and returns its observable result
type c19Body struct {
	name string
	// fresh: a struct type nobody in this process has used before (built per execution with
	// reflect.StructOf and shared by the threads of that execution), so that process-wide caches
	// keyed by type see a genuine first use in every execution
	runFresh func(fresh reflect.Type, buf *bytes.Buffer) string
	run      func(it *gotype.Iterator, buf *bytes.Buffer) string
	// cached: the thread uses an iterator/unfolder that has already seen the types (prepared outside the scheduler)
}

func c19Bodies() []c19Body {
	var out []c19Body
	for vi := range c19Values {
		for ci, cd := range codecs {
			if vi >= 3 && ci != vi%3 {
				continue // every value with one codec, the first three with all codecs
			}
			vi, cd := vi, cd
			out = append(out, c19Body{name: fmt.Sprintf("Fold(%T)->%s", c19Values[vi], cd.Name), run: func(_ *gotype.Iterator, buf *bytes.Buffer) string {
				if err := gotype.Fold(c19Values[vi], cd.NewEnc(buf, 0)); err != nil {
					return "error: " + err.Error()
				}
				return fmt.Sprintf("%x", buf.Bytes())
			}})
		}
	}
	for _, cd := range codecs {
		cd := cd
		out = append(out, c19Body{name: "Parse(" + cd.Name + ")->Unfold(c19Nested)", run: func(_ *gotype.Iterator, _ *bytes.Buffer) string {
			var t c19Nested
			u, err := gotype.NewUnfolder(&t)
			if err != nil {
				return "error: " + err.Error()
			}
			if err := cd.Parse(c19Docs[cd], u); err != nil {
				return "error: " + err.Error()
			}
			return model.Dump(t)
		}}, c19Body{name: "Parse(" + cd.Name + ")->Unfold(interface{})", run: func(_ *gotype.Iterator, _ *bytes.Buffer) string {
			var t interface{}
			u, err := gotype.NewUnfolder(&t)
			if err != nil {
				return "error: " + err.Error()
			}
			if err := cd.Parse(c19Docs[cd], u); err != nil {
				return "error: " + err.Error()
			}
			return model.Dump(t)
		}})
	}
	for _, cd := range codecs {
		for i := 0; i < 2; i++ {
			cd, i := cd, i
			out = append(out, c19Body{name: fmt.Sprintf("Parse(%s, long escaped strings #%d)->Unfold(interface{})", cd.Name, i+1), run: func(_ *gotype.Iterator, _ *bytes.Buffer) string {
				var t interface{}
				u, err := gotype.NewUnfolder(&t)
				if err != nil {
					return "error: " + err.Error()
				}
				if err := cd.Parse(c19LongDocs[cd][i], u); err != nil {
					return "error: " + err.Error()
				}
				return model.Dump(t)
			}})
		}
	}
	// every character class the JSON encoder escapes, with DIFFERENT characters of each class in the two bodies (escape
	// sequences assembled in a shared buffer are invisible when both threads write the same sequence)
	escStrings := [2][]string{{"line\u2028sep", "a<b", "ctl\x01", "q\"", "t\t", "é"}, {"para\u2029sep", "a>b&", "ctl\x1f", "b\\", "n\n", "ü"}}
	for i := 0; i < 2; i++ {
		i := i
		out = append(out, c19Body{name: fmt.Sprintf("Fold(escaped strings #%d)->json", i+1), run: func(_ *gotype.Iterator, buf *bytes.Buffer) string {
			if err := gotype.Fold(escStrings[i], codecJSON.NewEnc(buf, 0)); err != nil {
				return "error: " + err.Error()
			}
			return fmt.Sprintf("%x", buf.Bytes())
		}})
	}
	for _, cd := range codecs[:2] {
		for i := 0; i < 2; i++ {
			cd, i := cd, i
			out = append(out, c19Body{name: fmt.Sprintf("Parse(%s, all kinds #%d)->Unfold(c19Kinds)", cd.Name, i+1), run: func(_ *gotype.Iterator, _ *bytes.Buffer) string {
				var t c19Kinds
				u, err := gotype.NewUnfolder(&t)
				if err != nil {
					return "error: " + err.Error()
				}
				if err := cd.Parse(c19KindsDocs[cd][i], u); err != nil {
					return "error: " + err.Error()
				}
				return model.Dump(t)
			}})
		}
	}
	out = append(out, c19Body{name: "Fold(c19Kinds #1)->cborl", run: func(_ *gotype.Iterator, buf *bytes.Buffer) string {
		if err := gotype.Fold(c19FillKinds(1), codecCBOR.NewEnc(buf, 0)); err != nil {
			return "error: " + err.Error()
		}
		return fmt.Sprintf("%x", buf.Bytes())
	}}, c19Body{name: "Fold(c19Kinds #2)->cborl", run: func(_ *gotype.Iterator, buf *bytes.Buffer) string {
		if err := gotype.Fold(c19FillKinds(2), codecCBOR.NewEnc(buf, 0)); err != nil {
			return "error: " + err.Error()
		}
		return fmt.Sprintf("%x", buf.Bytes())
	}})
	// a target that knows only a few members: everything else (nested objects, arrays, strings) is skipped
	type partial struct {
		In struct {
			A string `struct:"a"`
		} `struct:"in"`
		Extra int `struct:"extra"`
	}
	for _, cd := range codecs {
		cd := cd
		out = append(out, c19Body{name: "Parse(" + cd.Name + ")->Unfold(partial struct, unknown members skipped)", run: func(_ *gotype.Iterator, _ *bytes.Buffer) string {
			var t partial
			u, err := gotype.NewUnfolder(&t)
			if err != nil {
				return "error: " + err.Error()
			}
			if err := cd.Parse(c19Docs[cd], u); err != nil {
				return "error: " + err.Error()
			}
			return model.Dump(t)
		}})
	}
	out = append(out, c19Body{name: "Fold->cborl->Parse->Unfold(c19Nested)", run: func(_ *gotype.Iterator, buf *bytes.Buffer) string {
		if err := gotype.Fold(c19Values[6], codecCBOR.NewEnc(buf, 0)); err != nil {
			return "error: " + err.Error()
		}
		var t c19Nested
		u, _ := gotype.NewUnfolder(&t)
		if err := codecCBOR.Parse(buf.Bytes(), u); err != nil {
			return "error: " + err.Error()
		}
		return model.Dump(t)
	}})
	// first use of a never-seen struct type (fold and unfold), see c19FreshType
	out = append(out, c19Body{name: "Fold(fresh struct type)->cborl", runFresh: func(fresh reflect.Type, buf *bytes.Buffer) string {
		v := reflect.New(fresh).Elem()
		c19FillFresh(v)
		if err := gotype.Fold(v.Interface(), codecCBOR.NewEnc(buf, 0)); err != nil {
			return "error: " + err.Error()
		}
		return fmt.Sprintf("%x", buf.Bytes())
	}}, c19Body{name: "Parse(json)->Unfold(fresh struct type)", runFresh: func(fresh reflect.Type, _ *bytes.Buffer) string {
		t := reflect.New(fresh)
		u, err := gotype.NewUnfolder(t.Interface())
		if err != nil {
			return "error: " + err.Error()
		}
		if err := codecJSON.Parse([]byte(`{"a":"x","n":{"b":[1,2],"m":{"k":{"a":"deep"}}},"l":[{"b":[3]}],"unknown":{"q":[1,{"r":"s"}]}}`), u); err != nil {
			return "error: " + err.Error()
		}
		return model.Dump(t.Elem().Interface())
	}})
	// cached use: an iterator that has compiled the type before the concurrent phase starts
	out = append(out, c19Body{name: "cached Iterator.Fold(c19Nested)->json", run: func(it *gotype.Iterator, buf *bytes.Buffer) string {
		buf.Reset()
		if err := it.Fold(c19Values[6]); err != nil {
			return "error: " + err.Error()
		}
		return fmt.Sprintf("%x", buf.Bytes())
	}})
	return out
}

func init() {
	register(func() {
		engine.Register(&engine.Check{
			ID: "C19", Level: "model_checking",
			Rule:        "a cooperative scheduler owns every scheduling point (every function entry and loop iteration of the instrumented library, ~10^2-10^3 per body) of 2 (thorough: also 3) goroutines, each running a fold/encode/parse/unfold pipeline on its OWN instances over SHARED input bytes, SHARED Go values and SHARED Go types (plain struct, inline interface, omitempty+IsZeroer, map[string]interface{}, Folder, nested struct; first use of a type in both threads, and first use in one while cached in the other); every schedule with at most B preemptions is executed (first preemption position = explicit value choice over all points, later ones deviation-bounded): quick B=1, thorough B=2 (2 threads, body pairs of at most 700 scheduling points in total; B=1 for longer pairs) / B=1 (3 threads), both start orders; oracle: every thread returns exactly the result the same body returns alone, no thread panics, none exceeds its step budget (livelock); plus a SEPARATE free-running pass of the same bodies on 4 goroutines x 30 rounds in a -race build (the race detector's happens-before analysis, not an enumeration); a case = (body pair, start thread, schedule); non-trivial = the schedule contains a preemption that was actually reached",
			Assumptions: []string{"sequentially consistent interleaving at function/loop granularity; memory-model effects and conflicts inside one straight-line block are delegated to the race detector pass", "maps in shared values have at most one entry, so the number and identity of scheduling points is schedule-independent"},
			Families:    c19Families,
			Bounds: func(tier string) map[string]interface{} {
				return map[string]interface{}{"threads": tierPick(tier, "2", "2 and 3"), "preemption_bound": tierPick(tier, 1, 2), "preemption_bound_2_only_up_to_total_points": c19TwoPreemptionPoints}
			},
			Require: []string{"schedules_with_reached_preemption", "race_pass_rounds"},
		})
	})
}

const c19TwoPreemptionPoints = 700

type c19Pair struct{ a, b int }

func c19Pairs(n int, tier string) []c19Pair {
	// every body against a rotating partner, plus the pairs most likely to share state (same type, same codec)
	var out []c19Pair
	for i := 0; i < n; i++ {
		out = append(out, c19Pair{i, i}, c19Pair{i, (i + 1) % n})
		if tier == "thorough" {
			out = append(out, c19Pair{i, (i + 5) % n})
		}
	}
	return out
}

var (
	c19Solo     = map[int]string{}
	c19SoloPts  = map[int]int{}
	c19SoloOnce sync.Mutex
)

// c19RunSolo runs a body alone (no scheduler) and counts its instrumented steps.
func c19RunSolo(bodies []c19Body, i int) (string, int) {
	c19SoloOnce.Lock()
	defer c19SoloOnce.Unlock()
	if r, ok := c19Solo[i]; ok {
		return r, c19SoloPts[i]
	}
	it, buf := c19Prepare(bodies[i])
	verifrt.Reset(0)
	r := c19Call(bodies[i], it, buf, c19FreshType())
	c19Solo[i], c19SoloPts[i] = r, int(verifrt.Steps())
	return r, c19SoloPts[i]
}

// c19Prepare builds the per-thread instances outside the concurrent phase (for cached-use bodies).
func c19Prepare(b c19Body) (*gotype.Iterator, *bytes.Buffer) {
	buf := &bytes.Buffer{}
	if strings.HasPrefix(b.name, "cached") {
		it, err := gotype.NewIterator(codecJSON.NewEnc(buf, 0))
		if err != nil {
			panic(err)
		}
		it.Fold(c19Values[6]) // first use happens here, alone
		return it, buf
	}
	return nil, buf
}

func c19Families(tier string) []engine.Family {
	c19Init()
	bodies := c19Bodies()
	pairs := c19Pairs(len(bodies), tier)
	const maxPts = 20000
	fams := []engine.Family{
		{Name: "two-threads", Arity: []int{len(pairs), 2}, Dev: tierPick(tier, 0, 1), Body: func(x *engine.Exec) {
			p := pairs[x.Choose(len(pairs))]
			start := x.Choose(2)
			ids := []int{p.a, p.b}
			c19Schedule(x, bodies, ids, start, maxPts)
		}},
	}
	if tier == "thorough" {
		fams = append(fams, engine.Family{Name: "three-threads", Arity: []int{len(pairs)}, Dev: 0, Body: func(x *engine.Exec) {
			p := pairs[x.Choose(len(pairs))]
			start := x.Choose(3)
			ids := []int{p.a, p.b, (p.b + 3) % len(bodies)}
			c19Schedule(x, bodies, ids, start, maxPts)
		}})
	}
	fams = append(fams, engine.Family{Name: "race-pass", Body: func(x *engine.Exec) {
		x.Case("race-pass", true)
		x.Sample(func() interface{} {
			return map[string]interface{}{"race_pass": "same bodies, 4 goroutines, 30 rounds, -race build"}
		})
		bin := os.Getenv("MC_RACE_BIN")
		if bin == "" {
			engine.Fail("MC_RACE_BIN not set: the -race build of the worker is missing")
		}
		cmd := exec.Command(bin, "racepass")
		cmd.Env = append(os.Environ(), "GORACE=halt_on_error=1 exitcode=66", "GOMAXPROCS=8", "MC_ASLIMIT=0")
		out, err := cmd.CombinedOutput()
		s := string(out)
		if strings.Contains(s, "DATA RACE") {
			i := strings.Index(s, "WARNING: DATA RACE")
			x.Violation("race-detector", "data-race", "free-running-pass", trunc(s[i:], 1500), map[string]interface{}{"report": trunc(s[i:], 3000)})
			return
		}
		if err != nil {
			// the free-running pass crashed or returned a wrong result (e.g. "fatal error: concurrent map writes")
			x.Violation("free-running-pass", "crash-or-mismatch", "free-running-pass", fmt.Sprintf("%v: %s", err, trunc(s, 1500)), map[string]interface{}{"output": trunc(s, 3000)})
			return
		}
		var rounds, mismatches int
		fmt.Sscanf(s[strings.LastIndex(s, "racepass:"):], "racepass: rounds=%d mismatches=%d", &rounds, &mismatches)
		if mismatches > 0 {
			x.Violation("free-running-pass", "result-differs-from-solo", "free-running-pass", trunc(s, 1500), map[string]interface{}{"output": trunc(s, 3000)})
		}
		x.Count("race_pass_rounds", int64(rounds))
	}})
	return fams
}

func c19Schedule(x *engine.Exec, bodies []c19Body, ids []int, start, maxPts int) {
	total := 0
	want := make([]string, len(ids))
	for i, id := range ids {
		r, pts := c19RunSolo(bodies, id)
		want[i] = r
		total += pts
	}
	if total > maxPts {
		engine.Fail("bodies have %d scheduling points, more than the shard bound %d", total, maxPts)
	}
	// first preemption: none (0) or at point f-1; its target is the next other thread
	f := x.Choose(total+1) - 1
	its := make([]*gotype.Iterator, len(ids))
	bufs := make([]*bytes.Buffer, len(ids))
	for i, id := range ids {
		its[i], bufs[i] = c19Prepare(bodies[id])
	}
	var fresh reflect.Type
	for _, id := range ids {
		if bodies[id].runFresh != nil && fresh == nil {
			fresh = c19FreshType() // only executions that need one pay for a never-freed type
		}
	}
	s := engine.NewSched(x, f, 0)
	// executions on never-freed fresh types are explored with one preemption only (memory)
	// a second preemption (thorough tier) only for body combinations with at most c19TwoPreemptionPoints scheduling points
	// in total: the bound-2 space grows with the square of the points (the full product did not finish in 40 minutes)
	s.NoLater = fresh != nil || total > c19TwoPreemptionPoints
	got := make([]string, len(ids))
	var fns []func()
	for i, id := range ids {
		i, id := i, id
		fns = append(fns, func() { got[i] = c19Call(bodies[id], its[i], bufs[i], fresh) })
	}
	verifrt.Reset(int64(20*total + 20000))
	verifrt.Hook = s.Point
	panics, stacks := s.Run(start, fns)
	verifrt.Hook = nil
	verifrt.Reset(0)
	names := make([]string, len(ids))
	for i, id := range ids {
		names[i] = bodies[id].name
	}
	reached := f < 0 || s.Preemptions > 0
	x.Case(fmt.Sprintf("%v|%d|%d|%v", ids, start, f, x.Choices()), f >= 0 && s.Preemptions > 0)
	if f >= 0 && s.Preemptions > 0 {
		x.Count("schedules_with_reached_preemption", 1)
	}
	if !reached {
		x.Count("first_preemption_point_beyond_execution", 1)
	}
	x.Sample(func() interface{} {
		return map[string]interface{}{"threads": names, "start": start, "schedule": s.String(), "scheduling_points": s.Points()}
	})
	class := "pair:" + strings.Join(names, " || ")
	for i := range ids {
		wit := map[string]interface{}{"threads": names, "start": start, "schedule": s.String(), "thread": i, "alone": trunc(want[i], 300), "concurrent": trunc(got[i], 300)}
		if panics[i] != nil {
			sym := "panic"
			if _, ok := panics[i].(verifrt.Budget); ok {
				sym = "livelock"
			}
			wit["stack"] = trunc(string(stacks[i]), 1500)
			x.Violation("concurrent:"+names[i], sym, class, fmt.Sprintf("thread %d (%s): %v", i, names[i], panics[i]), wit)
			return
		}
		if got[i] != want[i] {
			x.Violation("concurrent:"+names[i], "result-differs-from-solo", class, fmt.Sprintf("thread %d (%s) returns a different result than when it runs alone", i, names[i]), wit)
			return
		}
	}
	x.Outcome(fmt.Sprint(s.Preemptions))
}

var c19FreshCounter int

// c19FreshType builds a struct type no one has used before: the layout is fixed, one tag varies.
// (reflect.StructOf types are never freed: a few hundred bytes per execution.)
func c19FreshType() reflect.Type {
	c19FreshCounter++
	tStr := reflect.TypeOf("")
	inner := reflect.StructOf([]reflect.StructField{
		{Name: "A", Type: tStr, Tag: `struct:"a"`},
		{Name: "B", Type: reflect.TypeOf([]int(nil)), Tag: `struct:"b"`},
		{Name: "U", Type: reflect.TypeOf(0), Tag: reflect.StructTag(fmt.Sprintf(`struct:"u" verif:"%d"`, c19FreshCounter))},
	})
	mid := reflect.StructOf([]reflect.StructField{
		{Name: "B", Type: reflect.TypeOf([]int(nil)), Tag: `struct:"b"`},
		{Name: "M", Type: reflect.MapOf(tStr, inner), Tag: `struct:"m"`},
		{Name: "U", Type: reflect.TypeOf(0), Tag: reflect.StructTag(fmt.Sprintf(`struct:"u" verif:"%d"`, c19FreshCounter))},
	})
	return reflect.StructOf([]reflect.StructField{
		{Name: "A", Type: tStr, Tag: `struct:"a"`},
		{Name: "N", Type: mid, Tag: `struct:"n"`},
		{Name: "L", Type: reflect.SliceOf(inner), Tag: `struct:"l"`},
		{Name: "P", Type: reflect.PtrTo(inner), Tag: `struct:"p,omitempty"`},
	})
}

func c19FillFresh(v reflect.Value) {
	v.Field(0).SetString("top")
	n := v.Field(1)
	n.Field(0).Set(reflect.ValueOf([]int{1, 2}))
	m := reflect.MakeMap(n.Field(1).Type())
	e := reflect.New(n.Field(1).Type().Elem()).Elem()
	e.Field(0).SetString("elem")
	m.SetMapIndex(reflect.ValueOf("k"), e)
	n.Field(1).Set(m)
	l := reflect.MakeSlice(v.Field(2).Type(), 1, 1)
	l.Index(0).Field(1).Set(reflect.ValueOf([]int{3}))
	v.Field(2).Set(l)
}

func c19Call(b c19Body, it *gotype.Iterator, buf *bytes.Buffer, fresh reflect.Type) string {
	if b.runFresh != nil {
		return b.runFresh(fresh, buf)
	}
	return b.run(it, buf)
}

// RacePass is the free-running pass (run in the -race build): every body pair on 4 goroutines
// released from a barrier, 30 rounds; results are compared with the solo results.
func RacePass() int {
	verifrt.Enable(false) // no shared step counter in the free-running pass
	c19Init()
	bodies := c19Bodies()
	want := make([]string, len(bodies))
	for i := range bodies {
		it, buf := c19Prepare(bodies[i])
		want[i] = c19Call(bodies[i], it, buf, c19FreshType())
	}
	rounds, mismatches := 0, 0
	for round := 0; round < 30; round++ {
		for _, p := range c19Pairs(len(bodies), "quick") {
			ids := []int{p.a, p.b, p.a, p.b}
			its := make([]*gotype.Iterator, 4)
			bufs := make([]*bytes.Buffer, 4)
			for i, id := range ids {
				its[i], bufs[i] = c19Prepare(bodies[id])
			}
			got := make([]string, 4)
			var wg sync.WaitGroup
			barrier := make(chan struct{})
			fresh := c19FreshType()
			for i, id := range ids {
				wg.Add(1)
				go func(i, id int) {
					defer wg.Done()
					<-barrier
					got[i] = c19Call(bodies[id], its[i], bufs[i], fresh)
				}(i, id)
			}
			close(barrier)
			wg.Wait()
			for i, id := range ids {
				if got[i] != want[id] {
					mismatches++
					fmt.Printf("mismatch: %s\n", bodies[id].name)
				}
			}
			rounds++
		}
	}
	// first use of named primitive types nobody has folded yet, next to reflection-based folds
	for k := 0; k+3 < len(c19NamedPool); k += 4 {
		var wg sync.WaitGroup
		barrier := make(chan struct{})
		for g := 0; g < 4; g++ {
			wg.Add(1)
			go func(g int) {
				defer wg.Done()
				<-barrier
				var buf bytes.Buffer
				v := []interface{}{c19NamedPool[k+g], c19Values[0], map[string]interface{}{"n": c19NamedPool[k+g]}}
				if err := gotype.Fold(v, codecJSON.NewEnc(&buf, 0)); err != nil || buf.Len() == 0 {
					fmt.Printf("mismatch: named type fold: %v\n", err)
				}
			}(g)
		}
		close(barrier)
		wg.Wait()
		rounds++
	}
	fmt.Printf("racepass: rounds=%d mismatches=%d\n", rounds, mismatches)
	if mismatches > 0 {
		return 1
	}
	return 0
}

var _ = structform.AnyType
