// Package props holds one harness per property (generator + oracle + symptom classes).
package props

import (
	"fmt"
	"io"
	"os"
	"runtime"
	"strings"

	structform "github.com/elastic/go-structform"
	"github.com/elastic/go-structform/cborl"
	"github.com/elastic/go-structform/json"
	"github.com/elastic/go-structform/ubjson"
	"github.com/elastic/go-structform/verifrt"

	"verif/mc/engine"
	"verif/mc/model"
)

// Init registers all checks.
func Init() {
	verifrt.Enable(true)
	if dir := os.Getenv("MC_COVER_DIR"); dir != "" && verifrt.NumHits > 0 {
		// coverage build (instr -cover): every worker dumps the blocks of the library it entered
		engine.AtWorkerExit = func() {
			var sb strings.Builder
			for i := 0; i < verifrt.NumHits; i++ {
				if verifrt.Hits[i] != 0 {
					fmt.Fprintf(&sb, "%d\n", i)
				}
			}
			os.WriteFile(fmt.Sprintf("%s/hits.%d", dir, os.Getpid()), []byte(sb.String()), 0o644)
		}
	}
	for _, f := range inits {
		f()
	}
}

var inits []func()

func register(f func()) { inits = append(inits, f) }

// Result of a guarded call.
type Result struct {
	Err   error
	Panic string // "" if none; otherwise "<library function>: <message>"
	Where string // library function that panicked
	Hang  bool   // step budget exceeded
	Steps int64
}

// Bad tells whether the call crashed or hung.
func (r Result) Bad() bool { return r.Panic != "" || r.Hang }

// Symptom returns "panic", "hang" or "".
func (r Result) Symptom() string {
	if r.Hang {
		return "hang"
	}
	if r.Panic != "" {
		return "panic"
	}
	return ""
}

const libPrefix = "github.com/elastic/go-structform"

// guard runs f with a step budget and turns panics into results.
func guard(budget int64, f func() error) (res Result) {
	verifrt.Reset(budget)
	defer func() {
		res.Steps = verifrt.Steps()
		verifrt.Reset(0)
		if r := recover(); r != nil {
			if _, ok := r.(engine.Infra); ok {
				panic(r)
			}
			if _, ok := r.(verifrt.Budget); ok {
				res.Hang = true
				res.Where = firstLibFrame()
				return
			}
			res.Where = firstLibFrame()
			res.Panic = fmt.Sprintf("%s: %v", res.Where, r)
		}
	}()
	res.Err = f()
	return
}

func firstLibFrame() string {
	pc := make([]uintptr, 64)
	n := runtime.Callers(3, pc)
	frames := runtime.CallersFrames(pc[:n])
	for {
		fr, more := frames.Next()
		if strings.HasPrefix(fr.Function, libPrefix) && !strings.Contains(fr.Function, "/verifrt.") {
			fn := strings.TrimPrefix(fr.Function, libPrefix)
			fn = strings.TrimPrefix(fn, "/")
			return fn
		}
		if !more {
			break
		}
	}
	return "?"
}

// Codec bundles the entry points of one wire format.
type Codec struct {
	Name         string
	Mode         model.Mode
	NewEnc       func(w io.Writer, opts int) structform.Visitor
	Parse        func(b []byte, v structform.Visitor) error
	ParseString  func(s string, v structform.Visitor) error
	ParseReader  func(r io.Reader, v structform.Visitor) (int64, error)
	NewWriter    func(v structform.Visitor) io.Writer // a parser as io.Writer (no end-of-input signal)
	NewParser    func(v structform.Visitor) interface{}
	ParseWith    func(p interface{}, b []byte) error // Parser.Parse on an existing parser (may be nil)
	ParseStrWith func(p interface{}, s string) error // Parser.ParseString on an existing parser
	BytesDec     func(b []byte, v structform.Visitor) Nexter
	ReaderDec    func(r io.Reader, buf int, v structform.Visitor) Nexter
}

// Nexter is a pull decoder.
type Nexter interface{ Next() error }

// JSON encoder option bits.
const (
	JNoEscapeHTML = 1
	JRadixPoint   = 2
	JIgnoreFloat  = 4
)

var codecJSON = &Codec{
	Name: "json", Mode: model.JSON,
	NewEnc: func(w io.Writer, o int) structform.Visitor {
		v := json.NewVisitor(w)
		if o&JNoEscapeHTML != 0 {
			v.SetEscapeHTML(false)
		}
		if o&JRadixPoint != 0 {
			v.SetExplicitRadixPoint(true)
		}
		if o&JIgnoreFloat != 0 {
			v.SetIgnoreInvalidFloat(true)
		}
		return v
	},
	Parse:        json.Parse,
	ParseString:  json.ParseString,
	ParseReader:  json.ParseReader,
	NewWriter:    func(v structform.Visitor) io.Writer { return json.NewParser(v) },
	NewParser:    func(v structform.Visitor) interface{} { return json.NewParser(v) },
	ParseWith:    func(p interface{}, b []byte) error { return p.(*json.Parser).Parse(b) },
	ParseStrWith: func(p interface{}, s string) error { return p.(*json.Parser).ParseString(s) },
	BytesDec:     func(b []byte, v structform.Visitor) Nexter { return json.NewBytesDecoder(b, v) },
	ReaderDec:    func(r io.Reader, n int, v structform.Visitor) Nexter { return json.NewDecoder(r, n, v) },
}

var codecUBJSON = &Codec{
	Name: "ubjson", Mode: model.UBJSON,
	NewEnc:       func(w io.Writer, o int) structform.Visitor { return ubjson.NewVisitor(w) },
	Parse:        ubjson.Parse,
	ParseString:  ubjson.ParseString,
	ParseReader:  ubjson.ParseReader,
	NewWriter:    func(v structform.Visitor) io.Writer { return ubjson.NewParser(v) },
	NewParser:    func(v structform.Visitor) interface{} { return ubjson.NewParser(v) },
	ParseWith:    func(p interface{}, b []byte) error { return p.(*ubjson.Parser).Parse(b) },
	ParseStrWith: func(p interface{}, s string) error { return p.(*ubjson.Parser).ParseString(s) },
	BytesDec:     func(b []byte, v structform.Visitor) Nexter { return ubjson.NewBytesDecoder(b, v) },
	ReaderDec:    func(r io.Reader, n int, v structform.Visitor) Nexter { return ubjson.NewDecoder(r, n, v) },
}

var codecCBOR = &Codec{
	Name: "cborl", Mode: model.Exact,
	NewEnc:       func(w io.Writer, o int) structform.Visitor { return cborl.NewVisitor(w) },
	Parse:        cborl.Parse,
	ParseString:  cborl.ParseString,
	ParseReader:  cborl.ParseReader,
	NewWriter:    func(v structform.Visitor) io.Writer { return cborl.NewParser(v) },
	NewParser:    func(v structform.Visitor) interface{} { return cborl.NewParser(v) },
	ParseWith:    func(p interface{}, b []byte) error { return p.(*cborl.Parser).Parse(b) },
	ParseStrWith: func(p interface{}, s string) error { return p.(*cborl.Parser).ParseString(s) },
	BytesDec:     func(b []byte, v structform.Visitor) Nexter { return cborl.NewBytesDecoder(b, v) },
	ReaderDec:    func(r io.Reader, n int, v structform.Visitor) Nexter { return cborl.NewDecoder(r, n, v) },
}

var codecs = []*Codec{codecJSON, codecUBJSON, codecCBOR}

// exact returns a copy of b whose capacity equals its length, so that any access beyond the
// input - even one that stays inside the allocator's size class - is a run-time panic.
func exact(b []byte) []byte {
	c := make([]byte, len(b))
	copy(c, b)
	return c
}

func hexs(b []byte) string {
	if len(b) > 96 {
		return fmt.Sprintf("%x…(%d bytes)", b[:96], len(b))
	}
	return fmt.Sprintf("%x", b)
}

func errStr(err error) string {
	if err == nil {
		return "<nil>"
	}
	return err.Error()
}

func tierPick[T any](tier string, quick, thorough T) T {
	if tier == "thorough" {
		return thorough
	}
	return quick
}
