package props

import (
	"bytes"
	"fmt"
	"io"
	"strings"

	structform "github.com/elastic/go-structform"
	"github.com/elastic/go-structform/gotype"

	"verif/mc/engine"
	"verif/mc/model"
)

// The idle picture of an instance (C17: "completing a document returns every internal nesting
// stack to its idle depth") is the length of every slice below it: state, length and element-type
// stacks, token / collect / literal buffers, the unfolder's six stacks and scratch slots. Scalars
// and caches are left to the behavioural probes (a leaked flag shows as a different output), so a
// refactoring that adds a scratch field does not disturb it. Not part of the picture:
var c17IdleSkip = map[string]bool{
	// pull decoders: Decoder.buffer is the not yet consumed *input* (e.g. the separator after the
	// document), buffer0 the fixed read buffer, in the reader
	"Decoder.buffer": true, "buffer0": true, "in": true,
	// gotype: per-instance caches of compiled folders/unfolders and interned keys
	"reg": true, "userReg": true, "keyCache": true,
}

func c17fp(inst interface{}) (idle, full string) {
	return model.Fingerprint(inst, model.FPOpts{Skip: c17IdleSkip, DepthsOnly: true}), model.Fingerprint(inst, model.FPOpts{Skip: map[string]bool{"buffer0": true, "in": true}})
}

var c17EncStreams = [][]model.Event{
	{model.SInt(model.KInt8, 1)},
	{model.ArrStart(-1, 0), model.ArrEnd()},
	{model.ArrStart(0, 0), model.ArrEnd()},
	{model.ObjStart(-1, 0), model.ObjEnd()},
	{model.ObjStart(1, 0), model.Key("a"), model.ArrStart(2, 0), model.Nil(), model.Str("x"), model.ArrEnd(), model.ObjEnd()},
	{model.ArrStart(-1, 0), model.ObjStart(-1, 0), model.Key("k"), model.F64(0x3ff8000000000000), model.ObjEnd(), model.UInt(model.KUint64, 1<<63), model.ArrEnd()},
	{model.Ext(model.KBoolArray, []bool{})},
	{model.Ext(model.KBoolArray, []bool{true, false})},
	{model.Ext(model.KBoolObject, map[string]bool{"t": true})},
	{model.Ext(model.KInt8Array, []int8{1, -1})},
	{model.Ext(model.KStringObject, map[string]string{"s": "v"})},
	{model.Ext(model.KUint64Array, []uint64{1, 1<<64 - 1})},
	{model.Ext(model.KBytes, []byte{1, 2, 3})},
	{model.Str(strings.Repeat("x", 70) + "\"é")},
	{model.ArrStart(2, 0), model.Ext(model.KStringArray, []string{}), model.Ext(model.KUintObject, map[string]uint{}), model.ArrEnd()},
	{model.StrRef("by-ref")},
	// the longest renderings of numbers (scratch space of the encoders) and every kind of escaped character
	{model.F64(0x3fd3333333333334)},  // 0.30000000000000004
	{model.F64(0xffefffffffffffff)},  // -1.7976931348623157e+308
	{model.SInt(model.KInt64, -1<<63), model.UInt(model.KUint64, 1<<64-1)},
	{model.Str("a<b>&\x01\x1f\u2028\u2029\x7f")},
	{model.ArrStart(-1, 0), model.F32(0x7f7fffff), model.Str("\t\n\"\\/"), model.ArrEnd()},
}

var c17ParseDocs = map[*Codec][][]byte{
	codecJSON: {[]byte(`null`), []byte(`"a"`), []byte(`[]`), []byte(`{}`), []byte(`[1,[2,{"a":null}]]`), []byte(`{"k":"v","n":[1.5,true]}`),
		[]byte(`"` + strings.Repeat("x", 70) + `"`), []byte(`[1.5e3,-0]`), []byte(`1.5`), []byte(`7`), []byte("\"\\u00e9\\n\""), []byte(" [ ] "), []byte(`{"` + strings.Repeat("k", 70) + `":false}`)},
	codecCBOR: {{0x01}, {0x61, 'a'}, {0x80}, {0xa0}, {0x82, 0x01, 0x81, 0x02}, {0x9f, 0x01, 0xff}, {0xbf, 0x61, 'a', 0xf6, 0xff}, {0x42, 1, 2},
		append([]byte{0x78, 70}, bytes.Repeat([]byte{'x'}, 70)...), {0xfa, 0x3f, 0x80, 0, 0}, {0xa1, 0x60, 0x38, 0xc7}, {0x98, 0x01, 0x1b, 1, 2, 3, 4, 5, 6, 7, 8}},
	codecUBJSON: {{'Z'}, {'i', 1}, []byte("Si\x01a"), {'[', ']'}, {'{', '}'}, []byte("[#i\x02i\x01i\x02"), []byte("[$U#i\x02\x01\x02"), []byte("{$i#i\x01i\x01a\x05"),
		[]byte("[$[#i\x01$i#i\x01\x07"), []byte("{#i\x01i\x01a[T]"), append([]byte{'S', 'U', 70}, bytes.Repeat([]byte{'x'}, 70)...), []byte("[$Z#i\x02"), []byte("[i\x01[i\x02]]"),
		[]byte("[#i\x00"), []byte("{$S#i\x00"), []byte("HU\x0212"), []byte("[N]"),
		[]byte("{i\x01aNi\x05}"), []byte("[#i\x01Ni\x05"), []byte("[$[#i\x02{$i#i\x01i\x01a\x05]i\x07]")},
}

type c17S struct {
	A  string            `struct:"a"`
	B  []int             `struct:"b"`
	M  map[string]string `struct:"m"`
	P  *c17In            `struct:"p"`
	I  interface{}       `struct:"i"`
	In c17In             `struct:",inline"`
}
type c17In struct {
	X int8    `struct:"x"`
	Y float64 `struct:"y,omitempty"`
}

// types that use a type T only inlined, next to values that use the same T as an ordinary value
type c17OnlyInline struct {
	ID int   `struct:"id"`
	In c17In `struct:",inline"`
}
type c17MapField struct {
	M map[string]int `struct:"m"`
}
type c17MapInline struct {
	ID int            `struct:"id"`
	M  map[string]int `struct:",inline"`
}

var c17FoldValues = []interface{}{
	c17OnlyInline{ID: 7, In: c17In{X: 2, Y: 1}}, c17MapField{M: map[string]int{"a": 1}}, c17MapInline{ID: 1, M: map[string]int{"a": 1}},
	1, "s", []int{1, 2}, map[string]interface{}{"a": []interface{}{1, "x"}},
	c17S{A: "a", B: []int{1}, M: map[string]string{"k": "v"}, P: &c17In{X: 1, Y: 2}, I: c17In{X: 2}, In: c17In{X: 3}},
	&c17In{X: 5}, []c17In{{X: 1}, {X: 2, Y: 3}}, map[string]c17In{"a": {X: 1}}, []interface{}{nil, true, c17In{X: 9}},
	map[string][]string{"a": {"x"}}, struct{ E []bool }{[]bool{}}, [2]int{1, 2},
}

// unfold ops: (target constructor, event stream)
type c17UnfoldOp struct {
	name string
	mk   func() interface{}
	evs  []model.Event
}

// (operations whose name ends in c17TwiceSuffix call SetTarget twice before the document: a target that never received a
// document is replaced)
const c17TwiceSuffix = " (SetTarget twice)"

func c17UnfoldOps() []c17UnfoldOp {
	obj := []model.Event{model.ObjStart(-1, 0), model.Key("a"), model.Str("s"), model.Key("b"), model.ArrStart(2, 0), model.SInt(model.KInt8, 1), model.SInt(model.KInt64, 2), model.ArrEnd(),
		model.Key("m"), model.ObjStart(1, 0), model.KeyRef("k"), model.StrRef("v"), model.ObjEnd(), model.Key("p"), model.ObjStart(-1, 0), model.Key("x"), model.SInt(model.KInt8, 4), model.ObjEnd(),
		model.Key("i"), model.ArrStart(-1, 0), model.Nil(), model.Bool(true), model.ArrEnd(), model.Key("x"), model.UInt(model.KUint8, 7), model.ObjEnd()}
	arr := []model.Event{model.ArrStart(-1, 0), model.SInt(model.KInt8, 1), model.SInt(model.KInt8, 2), model.SInt(model.KInt8, 3), model.ArrEnd()}
	nested := []model.Event{model.ArrStart(2, 0), model.ArrStart(-1, 0), model.Str("a"), model.ArrEnd(), model.ObjStart(-1, 0), model.Key("k"), model.ArrStart(0, 0), model.ArrEnd(), model.ObjEnd(), model.ArrEnd()}
	return []c17UnfoldOp{
		{"struct<-object", func() interface{} { return &c17S{} }, obj},
		{"interface<-object", func() interface{} { return new(interface{}) }, obj},
		{"map[string]interface<-object", func() interface{} { return &map[string]interface{}{} }, obj},
		{"[]int<-array", func() interface{} { return &[]int{} }, arr},
		{"[]interface<-nested", func() interface{} { return &[]interface{}{} }, nested},
		{"interface<-nested", func() interface{} { return new(interface{}) }, nested},
		{"int<-scalar", func() interface{} { return new(int) }, []model.Event{model.SInt(model.KInt16, 300)}},
		{"string<-stringref", func() interface{} { return new(string) }, []model.Event{model.StrRef("ref")}},
		{"[]uint8<-typed-array", func() interface{} { return &[]uint8{} }, []model.Event{model.ArrStart(2, structform.Uint8Type), model.UInt(model.KUint8, 1), model.UInt(model.KUint8, 2), model.ArrEnd()}},
		{"map[string]int<-object", func() interface{} { return &map[string]int{} }, []model.Event{model.ObjStart(1, 0), model.KeyRef("a"), model.SInt(model.KInt8, 1), model.ObjEnd()}},
		{"*struct<-object", func() interface{} { var p *c17In; return &p }, []model.Event{model.ObjStart(-1, 0), model.Key("x"), model.SInt(model.KInt8, 1), model.Key("unknown"), model.ArrStart(-1, 0), model.SInt(model.KInt8, 1), model.ArrEnd(), model.ObjEnd()}},
		{"[]struct<-array", func() interface{} { return &[]c17In{} }, []model.Event{model.ArrStart(1, 0), model.ObjStart(-1, 0), model.Key("y"), model.F64(0x3ff0000000000000), model.ObjEnd(), model.ArrEnd()}},
		{"interface<-ext-events", func() interface{} { return new(interface{}) }, []model.Event{model.ArrStart(-1, 0), model.Ext(model.KInt8Array, []int8{1}), model.Ext(model.KStringObject, map[string]string{"a": "b"}), model.ArrEnd()}},
	}
}

func init() {
	register(func() {
		engine.Register(&engine.Check{
			ID: "C17", Level: "model_checking",
			Rule:        "explicit-state search over the histories of one long-lived instance, per component (3 encoders, 3 parsers x {Write whole, Write byte-wise, Parse}, 3 byte-slice and 3 reader pull decoders, fold iterator, unfolder): alphabet of 11-17 complete documents chosen to leave different traces (scalars, empty/nested/known/unknown-length containers, typed containers, extended events incl. empty ones, strings >64 bytes, first and cached use of Go types); every history up to the unpruned depth, then breadth-first with states matched by a reflective fingerprint of the instance's private state; a state is a history, every successor is rebuilt by replaying it on a fresh real instance; oracle on every transition: output of the probe document == output on a new instance, and the idle part of the private state (all stacks, current states, token buffers) == that of a new instance; distinct = transitions from non-initial states",
			Assumptions: []string{"fingerprint abstraction: bytes beyond len and fixed backing arrays are write-before-read (validated by exploring depth <= unpruned bound without state matching)", "the idle comparison looks at the lengths of all slices of the instance (stacks and buffers); leaked scalar state is left to the behavioural probes", "histories contain only documents the instance accepts"},
			Families:    c17Families,
			Bounds: func(tier string) map[string]interface{} {
				return map[string]interface{}{"unpruned_depth": tierPick(tier, 2, 2), "max_depth": tierPick(tier, 3, 5)}
			},
			Require: []string{"+transitions", "bfs_pruned_by_fingerprint"},
		})
	})
}

func c17Families(tier string) []engine.Family {
	opts := engine.BFSOpts{UnprunedDepth: 2, MaxDepth: tierPick(tier, 3, 5)}
	var fams []engine.Family
	add := func(m *engine.BFSModel) {
		fams = append(fams, engine.Family{Name: m.Name, Body: func(x *engine.Exec) {
			x.Sample(func() interface{} {
				var ops []string
				for i := 0; i < m.NumOps && i < 6; i++ {
					ops = append(ops, m.OpName(i))
				}
				return map[string]interface{}{"component": m.Name, "alphabet_size": m.NumOps, "first_ops": ops, "example_history": []string{m.OpName(m.NumOps - 1), m.OpName(0)}}
			})
			engine.BFS(x, m, opts)
		}})
	}
	badOf := func(r Result) string {
		if r.Bad() {
			return r.Symptom() + ": " + r.Panic + r.Where
		}
		return ""
	}
	// encoders
	for _, cd := range codecs {
		cd := cd
		add(&engine.BFSModel{Name: cd.Name + ".Visitor", NumOps: len(c17EncStreams),
			OpName: func(op int) string { return model.EventsString(c17EncStreams[op]) },
			Run: func(h []int, op int) (string, string, string, string) {
				var buf bytes.Buffer
				raw := cd.NewEnc(&buf, 0)
				enc := structform.EnsureExtVisitor(raw)
				var out string
				res := guard(2000000, func() error {
					for _, i := range h {
						if _, err := model.Drive(enc, c17EncStreams[i]); err != nil {
							return fmt.Errorf("history document rejected: %v", err)
						}
					}
					if op >= 0 {
						mark := buf.Len()
						_, err := model.Drive(enc, c17EncStreams[op])
						out = fmt.Sprintf("%x|%v", buf.Bytes()[mark:], err)
					}
					return nil
				})
				if res.Err != nil {
					return "", "", "", res.Err.Error()
				}
				idle, full := c17fp(raw)
				return out, idle, full, badOf(res)
			}})
	}
	// parsers
	for _, cd := range codecs {
		cd := cd
		docs := c17ParseDocs[cd]
		nops := len(docs) * 3
		feed := func(p interface{}, w io.Writer, doc []byte, mode int) error {
			if cd == codecJSON && len(doc) > 0 && (doc[0] == '-' || (doc[0] >= '0' && doc[0] <= '9')) {
				mode = 2 // a top-level number is only terminated by the end of the input: Parse() is the only way to feed it
			}
			switch mode {
			case 0:
				_, err := w.Write(append([]byte(nil), doc...))
				return err
			case 1:
				for i := range doc {
					if _, err := w.Write([]byte{doc[i]}); err != nil {
						return err
					}
				}
				return nil
			default:
				return cd.ParseWith(p, append([]byte(nil), doc...))
			}
		}
		add(&engine.BFSModel{Name: cd.Name + ".Parser", NumOps: nops,
			OpName: func(op int) string {
				return fmt.Sprintf("%s(%s)", [...]string{"Write", "WriteBytewise", "Parse"}[op%3], trunc(fmt.Sprintf("%q", docs[op/3]), 40))
			},
			Run: func(h []int, op int) (string, string, string, string) {
				rec := model.NewRecorder()
				p := cd.NewParser(rec)
				w := p.(io.Writer)
				var out string
				res := guard(2000000, func() error {
					for _, i := range h {
						if err := feed(p, w, docs[i/3], i%3); err != nil {
							return fmt.Errorf("history document rejected: %v", err)
						}
					}
					if op >= 0 {
						mark := len(rec.Evs)
						err := feed(p, w, docs[op/3], op%3)
						out = model.EventsString(rec.Evs[mark:]) + "|" + errStr(err)
					}
					return nil
				})
				if res.Err != nil {
					return "", "", "", res.Err.Error()
				}
				idle, full := c17fp(p)
				// the three feeding modes of a document must be indistinguishable: normalise the op name away
				return out, idle, full, badOf(res)
			}})
	}
	// pull decoders
	for _, cd := range codecs {
		for kind := 0; kind < 2; kind++ {
			cd, kind := cd, kind
			docs := c17ParseDocs[cd]
			sep := []byte{}
			if cd == codecJSON {
				sep = []byte{'\n'}
			}
			add(&engine.BFSModel{Name: cd.Name + [...]string{".BytesDecoder", ".ReaderDecoder"}[kind], NumOps: len(docs),
				OpName: func(op int) string { return trunc(fmt.Sprintf("%q", docs[op]), 40) },
				Run: func(h []int, op int) (string, string, string, string) {
					var stream []byte
					for _, i := range h {
						stream = append(append(stream, docs[i]...), sep...)
					}
					if op >= 0 {
						stream = append(append(stream, docs[op]...), sep...)
					}
					rec := model.NewRecorder()
					var d Nexter
					if kind == 0 {
						d = cd.BytesDec(stream, rec)
					} else {
						d = cd.ReaderDec(&chunkReader{doc: stream, chunks: [][2]int{{0, len(stream)}}}, 5, rec)
					}
					var out, idle, full string
					res := guard(2000000, func() error {
						for range h {
							if err := d.Next(); err != nil {
								return fmt.Errorf("history document rejected: %v", err)
							}
						}
						if op >= 0 {
							mark := len(rec.Evs)
							err := d.Next()
							out = model.EventsString(rec.Evs[mark:]) + "|" + errStr(err)
						}
						idle, full = c17fp(d)
						if op >= 0 {
							out += "|then:" + errStr(d.Next())
						}
						return nil
					})
					if res.Err != nil {
						return "", "", "", res.Err.Error()
					}
					return out, idle, full, badOf(res)
				}})
		}
	}
	// fold iterator
	add(&engine.BFSModel{Name: "gotype.Iterator", NumOps: len(c17FoldValues),
		OpName: func(op int) string { return trunc(fmt.Sprintf("%T", c17FoldValues[op]), 60) },
		Run: func(h []int, op int) (string, string, string, string) {
			rec := model.NewRecorder()
			it, err := gotype.NewIterator(rec)
			if err != nil {
				return "", "", "", err.Error()
			}
			var out string
			res := guard(2000000, func() error {
				for _, i := range h {
					if err := it.Fold(c17FoldValues[i]); err != nil {
						return fmt.Errorf("history value rejected: %v", err)
					}
				}
				if op >= 0 {
					mark := len(rec.Evs)
					err := it.Fold(c17FoldValues[op])
					out = model.EventsString(rec.Evs[mark:]) + "|" + errStr(err)
				}
				return nil
			})
			if res.Err != nil {
				return "", "", "", res.Err.Error()
			}
			idle, full := c17fp(it)
			return out, idle, full, badOf(res)
		}})
	// fold iterator, second alphabet: the inline / Folder seed values of the Go space - the same struct types reached first as
	// the dynamic value of an inlined interface, as an ordinary value, behind a pointer, nested in one another (the iterator
	// compiles a type where it meets it first; what it caches then must be right everywhere else)
	var inlineVals []interface{}
	for _, sd := range seeds() {
		switch sd.name {
		case "SeedInlineIfc", "SeedInlineFolderV", "SeedInlineFolderP", "SeedInlineNested", "SeedInlinePtr", "SeedFolderV":
			for _, v := range sd.vals {
				// only values a new iterator accepts (C17 speaks about completely processed documents)
				if r := guard(400000, func() error { return gotype.Fold(v, model.NewRecorder()) }); !r.Bad() && r.Err == nil {
					inlineVals = append(inlineVals, v)
				}
			}
		}
	}
	add(&engine.BFSModel{Name: "gotype.Iterator(inline seeds)", NumOps: len(inlineVals),
		OpName: func(op int) string { return trunc(model.Dump(inlineVals[op]), 70) },
		Run: func(h []int, op int) (string, string, string, string) {
			rec := model.NewRecorder()
			it, err := gotype.NewIterator(rec)
			if err != nil {
				return "", "", "", err.Error()
			}
			var out string
			res := guard(2000000, func() error {
				for _, i := range h {
					if err := it.Fold(inlineVals[i]); err != nil {
						return fmt.Errorf("history value rejected: %v", err)
					}
				}
				if op >= 0 {
					mark := len(rec.Evs)
					err := it.Fold(inlineVals[op])
					out = model.EventsString(rec.Evs[mark:]) + "|" + errStr(err)
				}
				return nil
			})
			if res.Err != nil {
				return "", "", "", res.Err.Error()
			}
			idle, full := c17fp(it)
			return out, idle, full, badOf(res)
		}})
	// unfolder
	uops := c17UnfoldOps()
	for _, i := range []int{0, 1, 3, 9} {
		o := uops[i]
		o.name += c17TwiceSuffix
		uops = append(uops, o)
	}
	add(&engine.BFSModel{Name: "gotype.Unfolder", NumOps: len(uops),
		OpName: func(op int) string { return uops[op].name },
		Run: func(h []int, op int) (string, string, string, string) {
			u, err := gotype.NewUnfolder(nil)
			if err != nil {
				return "", "", "", err.Error()
			}
			var out string
			apply := func(o c17UnfoldOp) (string, error) {
				t := o.mk()
				if strings.HasSuffix(o.name, c17TwiceSuffix) {
					if err := u.SetTarget(o.mk()); err != nil {
						return "", err
					}
				}
				if err := u.SetTarget(t); err != nil {
					return "", err
				}
				if _, err := model.Drive(structform.EnsureExtVisitor(u), o.evs); err != nil {
					return "", err
				}
				return model.Dump(t), nil
			}
			res := guard(2000000, func() error {
				for _, i := range h {
					if _, err := apply(uops[i]); err != nil {
						return fmt.Errorf("history document rejected: %v", err)
					}
				}
				if op >= 0 {
					s, err := apply(uops[op])
					out = s + "|" + errStr(err)
				}
				return nil
			})
			if res.Err != nil {
				return "", "", "", res.Err.Error()
			}
			idle, full := c17fp(u)
			return out, idle, full, badOf(res)
		}})
	// unfolder with the key cache enabled (capacity 1, 2, 3): keys by reference into map targets, histories with more
	// distinct keys than the cache holds, probes that reuse evicted and resident keys
	kdoc := func(kv ...interface{}) []model.Event {
		evs := []model.Event{model.ObjStart(-1, 0)}
		for i := 0; i < len(kv); i += 2 {
			evs = append(evs, model.KeyRef(kv[i].(string)), model.SInt(model.KInt8, int64(kv[i+1].(int))))
		}
		return append(evs, model.ObjEnd())
	}
	long := strings.Repeat("k", 70)
	kdocs := [][]model.Event{kdoc("a", 1), kdoc("b", 2), kdoc("c", 3), kdoc("a", 4, "b", 5), kdoc("c", 6, "d", 7), kdoc("d", 8, "a", 9), kdoc(long, 1), kdoc("", 2, "a", 3),
		{model.ObjStart(-1, 0), model.KeyRef("a"), model.ObjStart(-1, 0), model.KeyRef("b"), model.SInt(model.KInt8, 1), model.KeyRef("a"), model.SInt(model.KInt8, 2), model.ObjEnd(), model.ObjEnd()}}
	for _, capacity := range []int{1, 2, 3} {
		capacity := capacity
		add(&engine.BFSModel{Name: fmt.Sprintf("gotype.Unfolder(EnableKeyCache(%d))", capacity), NumOps: len(kdocs),
			OpName: func(op int) string { return model.EventsString(kdocs[op]) },
			Run: func(h []int, op int) (string, string, string, string) {
				u, err := gotype.NewUnfolder(nil)
				if err != nil {
					return "", "", "", err.Error()
				}
				u.EnableKeyCache(capacity)
				var out string
				apply := func(evs []model.Event) (string, error) {
					var t interface{}
					if evs[len(evs)-2].K == model.KObjEnd {
						t = &map[string]map[string]int{}
					} else {
						t = &map[string]int{}
					}
					if err := u.SetTarget(t); err != nil {
						return "", err
					}
					if _, err := model.Drive(structform.EnsureExtVisitor(u), evs); err != nil {
						return "", err
					}
					return model.Dump(t), nil
				}
				res := guard(2000000, func() error {
					for _, i := range h {
						if _, err := apply(kdocs[i]); err != nil {
							return fmt.Errorf("history document rejected: %v", err)
						}
					}
					if op >= 0 {
						s, err := apply(kdocs[op])
						out = s + "|" + errStr(err)
					}
					return nil
				})
				if res.Err != nil {
					return "", "", "", res.Err.Error()
				}
				idle, full := c17fp(u)
				return out, idle, full, badOf(res)
			}})
	}
	return fams
}
