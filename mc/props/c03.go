package props

import (
	"bytes"
	"fmt"
	"io"
	"runtime/metrics"
	"strings"

	"verif/mc/engine"
	"verif/mc/gen"
	"verif/mc/model"
)

// reduced byte alphabets: one symbol per branch visible in the parsers
var c03Alphabet = map[*Codec][]byte{
	codecCBOR: {
		0x00, 0x01, 0x17, 0x18, 0x19, 0x1a, 0x1b, 0x1c, 0x1f,
		0x20, 0x38, 0x39, 0x3a, 0x3b, 0x3e,
		0x40, 0x41, 0x58, 0x5b, 0x5c, 0x5f,
		0x60, 0x61, 0x78, 0x7b, 0x7d, 0x7f,
		0x80, 0x81, 0x98, 0x9b, 0x9c, 0x9f,
		0xa0, 0xa1, 0xb8, 0xbb, 0xbd, 0xbf,
		0xc0, 0xd8, 0xe0, 0xf4, 0xf5, 0xf6, 0xf7, 0xf8, 0xf9, 0xfa, 0xfb, 0xfc, 0xff,
	},
	codecUBJSON: {'Z', 'N', 'T', 'F', 'i', 'U', 'I', 'l', 'L', 'd', 'D', 'H', 'C', 'S', '[', ']', '{', '}', '#', '$',
		0x00, 0x01, 0x02, 0x7f, 0x80, 0xff, 'a'},
	codecJSON: {'{', '}', '[', ']', ',', ':', '"', '\\', '/', 'b', 'f', 'n', 'r', 't', 'u', 'l', 's', 'e', 'a', 'E',
		'0', '1', '9', 'd', '8', '-', '+', '.', ' ', '\n', 0x00, 0x1f, 0xc3, 0xa9, 0xff},
}

type c03Entry struct {
	name     string
	knowsEnd bool
	chunked  bool
}

var c03Entries = []c03Entry{
	{"Parse", true, false}, {"ParseString", true, false}, {"ParseReader", true, true}, {"Write", false, true},
	{"BytesDecoder.Next", true, false}, {"ReaderDecoder.Next", true, true},
	// readers that hand out their last chunk together with io.EOF (legal per the io.Reader contract)
	{"ParseReader(data+EOF)", true, true}, {"ReaderDecoder.Next(data+EOF)", true, true},
}

var allocSample = []metrics.Sample{{Name: "/gc/heap/allocs:bytes"}}

func allocBytes() uint64 {
	metrics.Read(allocSample)
	return allocSample[0].Value.Uint64()
}

// c03Run executes one (input, entry point, chunking) combination; returns events, the terminal error, and the guard result.
func c03Run(cd *Codec, in []byte, entry int, chunks [][2]int, bufSize int, refNodes int) (nev int, res Result, alloc uint64) {
	rec := model.NewRecorder()
	budget := int64(2000 + 400*(len(in)+refNodes) + 100*len(chunks))
	a0 := allocBytes()
	res = guard(budget, func() error {
		switch entry {
		case 0:
			return cd.Parse(exact(in), rec)
		case 1:
			return cd.ParseString(string(in), rec)
		case 2, 6:
			_, err := cd.ParseReader(&chunkReader{doc: in, chunks: copyChunks(chunks), eofWith: entry == 6}, rec)
			return err
		case 3:
			w := cd.NewWriter(rec)
			for _, ch := range chunks {
				if _, err := w.Write(exact(in[ch[0]:ch[1]])); err != nil {
					return err
				}
			}
			return nil
		case 4, 5, 7:
			var d Nexter
			if entry == 4 {
				d = cd.BytesDec(exact(in), rec)
			} else {
				d = cd.ReaderDec(&chunkReader{doc: in, chunks: copyChunks(chunks), eofWith: entry == 7}, bufSize, rec)
			}
			for i := 0; ; i++ {
				if err := d.Next(); err != nil {
					return err
				}
				if i > len(in)+1 {
					return errNoTermination
				}
			}
		}
		return nil
	})
	alloc = allocBytes() - a0
	return len(rec.Evs), res, alloc
}

func valueNodes(v model.Value) int {
	n := 1
	for _, e := range v.Elems {
		n += valueNodes(e)
	}
	return n
}

var errNoTermination = fmt.Errorf("decoder returned nil more often than the input has bytes")

// c03Check runs the given combinations for one input and applies the oracle.
func c03Check(x *engine.Exec, cd *Codec, in []byte, fam string, combos [][3]int) {
	ref := refOf(cd, in)
	class := fam + ":" + ref.Status.String()
	x.Count("ref_"+ref.Status.String(), 1)
	// events the reference value legitimately needs (a counted container of payload-less elements
	// denotes many events with few bytes); they are part of the step budget
	refNodes := ref.Nodes
	for _, v := range ref.Values {
		refNodes += valueNodes(v)
	}
	amplified := ref.Status == model.Unsupported && cd == codecUBJSON
	for _, cb := range combos {
		entry, mode, bufSize := cb[0], cb[1], cb[2]
		e := c03Entries[entry]
		var chunks [][2]int
		if e.chunked {
			switch {
			case mode == 0:
				chunks = [][2]int{{0, len(in)}}
			case mode == len(in):
				for i := 0; i < len(in); i++ {
					chunks = append(chunks, [2]int{i, i + 1})
				}
			default:
				chunks = [][2]int{{0, mode}, {mode, len(in)}}
			}
		} else if mode != 0 {
			continue
		}
		nev, res, alloc := c03Run(cd, in, entry, chunks, bufSize, refNodes)
		if amplified && res.Hang {
			// a dozen bytes that denote up to 2^63 payload-less elements: the event count, not the
			// parser, is out of proportion; excluded from the step-budget oracle (panics still count)
			x.Count("amplification_skipped", 1)
			continue
		}
		x.Count("runs", 1)
		wit := func() interface{} {
			return map[string]interface{}{"codec": cd.Name, "hex": hexs(in), "text": trunc(fmt.Sprintf("%q", in), 120), "entry": e.name, "chunks": chunks, "buffer": bufSize,
				"ref": ref.Status.String(), "ref_feature": ref.Feature, "err": errStr(res.Err), "events": nev}
		}
		ent := cd.Name + "." + e.name
		if res.Bad() {
			x.Violation(ent, res.Symptom(), class, res.Panic+res.Where, wit())
			continue
		}
		if res.Err == errNoTermination {
			x.Violation(ent, "hang", class, res.Err.Error(), wit())
			continue
		}
		if limit := uint64(1<<20 + 1024*(len(in)+nev)); alloc > limit {
			x.Violation(ent, "alloc", class, fmt.Sprintf("%d bytes allocated for %d input bytes and %d events", alloc, len(in), nev), wit())
			continue
		}
		if ref.Status == model.Truncated && e.knowsEnd {
			if res.Err == nil || res.Err == io.EOF {
				x.Violation(ent, "truncated-accepted", class, fmt.Sprintf("input ends inside a value, entry point returned %v", errStr(res.Err)), wit())
				continue
			}
			x.Count("truncation_reported", 1)
		}
		if (entry == 4 || entry == 5 || entry == 7) && res.Err == nil {
			engine.Fail("decoder loop ended without error")
		}
		x.Outcome(ent + "|" + errStr(res.Err))
	}
}

// c03Combos: all entry points x {whole, every single cut, all single bytes} (x one buffer size).
func c03Combos(n int, bufSize int) [][3]int {
	var out [][3]int
	for e := range c03Entries {
		for m := 0; m <= n; m++ {
			out = append(out, [3]int{e, m, bufSize})
		}
	}
	return out
}

// c03LightCombos: Parse whole, ParseReader + Write + ReaderDecoder in single bytes, BytesDecoder.
func c03LightCombos(n int) [][3]int {
	return [][3]int{{0, 0, 0}, {2, n, 0}, {3, n, 0}, {4, 0, 0}, {5, n, 2}, {6, 0, 0}, {7, 0, 8}}
}

func init() {
	register(func() {
		engine.Register(&engine.Check{
			ID: "C03", Level: "exploration",
			Rule:        "byte strings: ALL strings of length <=2 over all 256 byte values; all strings of length 3..L over a per-format reduced alphabet (one symbol per parser branch: 52 CBOR, 27 UBJSON, 35 JSON symbols); length/argument fields set to 0,1,2^31,2^32,2^62,2^63-1,2^63,2^64-1 followed by 0-2 payload bytes; every single-byte deletion/truncation/substitution (from the reduced alphabet) of a corpus of valid documents; scaling inputs (one unit - backslash pair, digit, bracket, blank, escape, no-op, element, member - repeated 1 024 and 4 096 times, and length-prefixed items of 1 024 - 16 384 bytes) whole and in single bytes; x entry points {Parse, ParseString, ParseReader, Write, BytesDecoder.Next loop, ReaderDecoder.Next loop, and the two reader-based ones over a reader that returns its last chunk together with io.EOF} x chunkings {whole, every single cut, all single bytes}; oracle: no panic, deterministic step budget 2000+400n (no wall clock), allocation <= 1MiB+1KiB*(n+events), decoder loop terminates, and reference verdict Truncated => error other than io.EOF; a case is one input string (distinct by codec+bytes), non-trivial = at least 2 bytes",
			Assumptions: []string{"bytes outside the reduced alphabet beyond length 2 take the default branches already represented", "time proportionality is established as a bound on instrumented steps (function entries and loop iterations), not seconds"},
			Families:    c03Families,
			Bounds: func(tier string) map[string]interface{} {
				return map[string]interface{}{"all_bytes_len": 2, "reduced_alphabet_len": tierPick(tier, 4, 5)}
			},
			Require: []string{"runs", "truncation_reported", "ref_malformed", "ref_complete"},
		})
	})
}

func c03Families(tier string) []engine.Family { return c03FamiliesWith(tier, c03Check) }

// c03FamiliesWith enumerates the byte-string space of C03 and hands every input to check (C03's own oracle, or C09's
// "whatever is accepted must come with a well-formed event stream").
func c03FamiliesWith(tier string, check func(x *engine.Exec, cd *Codec, in []byte, fam string, combos [][3]int)) []engine.Family {
	L := tierPick(tier, 4, 5)
	args := []uint64{0, 1, 1 << 31, 1 << 32, 1 << 62, 1<<63 - 1, 1 << 63, 1<<64 - 1}
	tails := [][]byte{{}, {0x61}, {0x61, 0x01}}
	edSc := docScope{Nodes: 3, UBJTypes: tierPick(tier, 4, 12), JSONTok: tierPick(tier, 2, 3), JSONAtoms: 1, NumStride: tierPick(tier, 60, 10), Ctx: tierPick(tier, 2, 4), ScStride: tierPick(tier, 4, 1)}
	fams := []engine.Family{
		{Name: "all-bytes-len<=2", Arity: []int{3, 257}, Body: func(x *engine.Exec) {
			cd := codecs[x.Choose(3)]
			var in []byte
			for len(in) < 2 {
				k := x.Choose(257)
				if k == 0 {
					break
				}
				in = append(in, byte(k-1))
			}
			x.Case(cd.Name+string(in), len(in) >= 2)
			x.Sample(func() interface{} { return map[string]interface{}{"codec": cd.Name, "hex": hexs(in)} })
			check(x, cd, in, "all-bytes", c03Combos(len(in), 1+x.Choose(2)*2))
		}},
		{Name: "reduced-alphabet", Arity: []int{3, 52, 52}, Body: func(x *engine.Exec) {
			cd := codecs[x.Choose(3)]
			al := c03Alphabet[cd]
			in := make([]byte, 0, L)
			// lengths 3..L: the last positions may stop early
			for len(in) < L {
				if len(in) >= 3 {
					k := x.Choose(len(al) + 1)
					if k == 0 {
						break
					}
					in = append(in, al[k-1])
					continue
				}
				in = append(in, al[x.Choose(len(al))])
			}
			x.Case(cd.Name+string(in), true)
			x.Sample(func() interface{} { return map[string]interface{}{"codec": cd.Name, "hex": hexs(in)} })
			check(x, cd, in, "reduced", c03LightCombos(len(in)))
		}},
		{Name: "argument-sweep", Body: func(x *engine.Exec) {
			fmtSel := x.Choose(2) // 0 cbor, 1 ubjson
			a := args[x.Choose(len(args))]
			tail := tails[x.Choose(len(tails))]
			var in []byte
			var cd *Codec
			if fmtSel == 0 {
				cd = codecCBOR
				major := byte(x.Choose(8))
				pre := [][]byte{{}, {0x9f}, {0xbf, 0x61, 'k'}, {0xa1}}[x.Choose(4)]
				in = append(append(append(in, pre...), gen.CBORHead(major, a, 8)...), tail...)
				if a <= 0xffffffff && x.Bool() {
					in = append(append(append([]byte{}, pre...), gen.CBORHead(major, a, 4)...), tail...)
				}
			} else {
				cd = codecUBJSON
				pre := [][]byte{{'S'}, {'H'}, {'[', '#'}, {'{', '#'}, {'[', '$', 'i', '#'}, {'{', '$', 'Z', '#'}, {'{'}, {'[', '$', '[', '#'}, {'[', '$', 'Z', '#'}}[x.Choose(9)]
				in = append(append(append(in, pre...), gen.UBJLen('L', int(a))...), tail...)
				if a <= 0x7fffffff && x.Bool() {
					in = append(append(append([]byte{}, pre...), gen.UBJLen('l', int(a))...), tail...)
				}
			}
			x.Case(cd.Name+string(in), true)
			x.Sample(func() interface{} { return map[string]interface{}{"codec": cd.Name, "hex": hexs(in)} })
			check(x, cd, in, "argument-sweep", c03Combos(len(in), 3))
		}},
	}
	fams = append(fams, engine.Family{Name: "json-broken-escapes", Body: func(x *engine.Exec) {
		// a broken or truncated escape as the very last thing of a string, after each kind of prefix
		bsl := "\\"
		prefixes := []string{"", "a", bsl + "ud800", bsl + "ud83d", bsl + "udc00", "é", bsl + "n"}
		tails := []string{bsl, bsl + "u", bsl + "u1", bsl + "u12", bsl + "u123", bsl + "ud800" + bsl, bsl + "ud800" + bsl + "u", bsl + "ud800" + bsl + "u1",
			bsl + "ud800" + bsl + "u12", bsl + "ud800" + bsl + "u123", bsl + "ud800" + bsl + "ud", bsl + "ud83d" + bsl + "ude0", bsl + "x", bsl + "ud800" + bsl + "n"}
		pfx := prefixes[x.Choose(len(prefixes))]
		tl := tails[x.Choose(len(tails))]
		var doc string
		switch x.Choose(4) {
		case 0:
			doc = `"` + pfx + tl + `"`
		case 1:
			doc = `["` + pfx + tl + `"]`
		case 2:
			doc = `{"` + pfx + tl + `":1}`
		default:
			doc = `"` + pfx + tl // unterminated as well
		}
		in := []byte(doc)
		x.Case("json"+doc, true)
		x.Sample(func() interface{} { return map[string]interface{}{"codec": "json", "text": doc} })
		check(x, codecJSON, in, "broken-escape", c03Combos(len(in), 3))
	}})
	fams = append(fams, engine.Family{Name: "scaling", Arity: []int{3}, Body: func(x *engine.Exec) {
		// "time proportional to the input length for all chunkings": one unit repeated 1 024 and 4 096 times (runs of
		// backslashes, digits, brackets, blanks, escapes, no-ops, elements, long strings), whole and in single bytes, under the
		// same linear step budget as every other input - a quadratic continuation path needs ~n*n/2 steps and exceeds it
		units := map[*Codec][][3]string{
			codecJSON: {{`"`, bs + bs, `"`}, {`"`, bs + `"`, `"`}, {`"`, "a", `"`}, {`"`, bs + "u00e9", `"`}, {`"`, "\xc3\xa9", `"`}, {"", "1", ""}, {"0.", "5", ""}, {"1e", "0", ""}, {"", "[", ""}, {"[", " ", "]"},
				{"[", "1,", "1]"}, {"[", `"a",`, "1]"}, {"{", `"k":1,`, `"z":0}`}, {"", `{"k":`, ""}, {"[", "[],", "1]"}, {`{"`, "k", `":1}`}, {"", "1 ", ""}, {`["`, bs + bs, ""}},
			codecUBJSON: {{"", "[", ""}, {"", "N", "Z"}, {"[", "N", "]"}, {"[", "i\x01", "]"}, {"[", "Si\x01a", "]"}, {"{", "i\x01ki\x01", "}"}, {"", "{i\x01k", ""}, {"[", "[]", "]"}, {"[", "Z", "]"}, {"", "Z", ""}},
			codecCBOR:   {{"", "\x81", "\x01"}, {"", "\x9f", ""}, {"\x9f", "\x01", "\xff"}, {"\x9f", "\x61a", "\xff"}, {"\xbf", "\x61k\x01", "\xff"}, {"", "\xbf\x61k", ""}, {"\x9f", "\x80", "\xff"}, {"", "\x01", ""}, {"\x9f", "\x41\x07", "\xff"}},
		}
		cd := codecs[x.Choose(3)]
		us := units[cd]
		u := us[x.Choose(len(us))]
		n := []int{1024, 4096}[x.Choose(2)]
		in := []byte(u[0] + strings.Repeat(u[1], n) + u[2])
		// plus length-prefixed long strings, whose length field must match
		x.Case(fmt.Sprintf("scale|%s|%q|%d", cd.Name, u, n), true)
		x.Sample(func() interface{} {
			return map[string]interface{}{"codec": cd.Name, "prefix": u[0], "repeated_unit": u[1], "suffix": u[2], "repetitions": n, "bytes": len(in)}
		})
		L := len(in)
		check(x, cd, in, "scaling", [][3]int{{0, 0, 0}, {2, L, 0}, {3, L, 0}, {4, 0, 0}, {5, L, 16}, {5, 0, 64}})
	}}, engine.Family{Name: "scaling-strings", Arity: []int{3}, Body: func(x *engine.Exec) {
		cd := codecs[x.Choose(3)]
		n := []int{1024, 4096, 16384}[x.Choose(3)]
		kind := x.Choose(3)
		var in []byte
		switch cd {
		case codecJSON:
			body := [...]string{"a", "\xc3\xa9", bs + "n"}[kind]
			in = []byte(`"` + strings.Repeat(body, n) + `"`)
		case codecUBJSON:
			switch kind {
			case 0:
				in = append([]byte{'S', 'l', byte(n >> 24), byte(n >> 16), byte(n >> 8), byte(n)}, bytes.Repeat([]byte{'s'}, n)...)
			case 1:
				in = append([]byte{'H', 'l', byte(n >> 24), byte(n >> 16), byte(n >> 8), byte(n)}, bytes.Repeat([]byte{'7'}, n)...)
			default:
				in = append([]byte{'[', '$', 'U', '#', 'l', byte(n >> 24), byte(n >> 16), byte(n >> 8), byte(n)}, bytes.Repeat([]byte{7}, n)...)
			}
		default:
			switch kind {
			case 0:
				in = append([]byte{0x7a, byte(n >> 24), byte(n >> 16), byte(n >> 8), byte(n)}, bytes.Repeat([]byte{'s'}, n)...)
			case 1:
				in = append([]byte{0x5a, byte(n >> 24), byte(n >> 16), byte(n >> 8), byte(n)}, bytes.Repeat([]byte{7}, n)...)
			default:
				in = append([]byte{0x9a, byte(n >> 24), byte(n >> 16), byte(n >> 8), byte(n)}, bytes.Repeat([]byte{0x20}, n)...)
			}
		}
		x.Case(fmt.Sprintf("scale-str|%s|%d|%d", cd.Name, kind, n), true)
		x.Sample(func() interface{} {
			return map[string]interface{}{"codec": cd.Name, "long_item_kind": kind, "length": n}
		})
		L := len(in)
		check(x, cd, in, "scaling", [][3]int{{0, 0, 0}, {2, L, 0}, {3, L, 0}, {4, 0, 0}, {5, L, 16}, {5, 0, 64}})
	}})
	ed := allDocFamilies(edSc, func(x *engine.Exec, c *DocCase) {
		doc := c.Doc
		if len(doc) == 0 || len(doc) > 48 {
			return
		}
		al := c03Alphabet[c.Codec]
		pos := x.Choose(len(doc))
		op := x.Choose(2 + len(al))
		in := append([]byte(nil), doc...)
		switch {
		case op == 0:
			in = append(in[:pos], in[pos+1:]...)
		case op == 1:
			in = in[:pos]
		default:
			in[pos] = al[op-2]
		}
		x.Case(c.Codec.Name+string(in), len(in) >= 2)
		x.Sample(func() interface{} {
			return map[string]interface{}{"codec": c.Codec.Name, "hex": hexs(in), "derived_from": hexs(doc)}
		})
		check(x, c.Codec, in, "edit", c03LightCombos(len(in)))
	})
	// the deeply nested valid documents themselves (31-257 levels, every container form, length-prefixed leaves): no panic,
	// linear steps, proportional allocation at and beyond the sizes of the parsers' inline stacks
	for _, f := range allDocFamilies(edSc, func(x *engine.Exec, c *DocCase) {
		x.Case(c.Codec.Name+string(c.Doc), true)
		x.Sample(func() interface{} { return map[string]interface{}{"codec": c.Codec.Name, "hex": hexs(c.Doc)} })
		check(x, c.Codec, c.Doc, "deep", c03LightCombos(len(c.Doc)))
	}) {
		if strings.Contains(f.Name, "-deep") {
			f.Name += "-valid"
			fams = append(fams, f)
		}
	}
	var keep []engine.Family
	for _, f := range ed {
		if f.Name == "json-int-boundaries" || f.Name == "ubj-noop-insertions" || strings.HasSuffix(f.Name, "-deeper") {
			continue // 1 320 near-identical digit strings / single-byte insertions into documents that are edited anyway add nothing to the edit neighbourhood
		}
		f.Name += "-edits"
		keep = append(keep, f)
	}
	return append(fams, keep...)
}
