package props

import (
	"fmt"
	"reflect"
	"strings"

	structform "github.com/elastic/go-structform"
	"github.com/elastic/go-structform/gotype"

	"verif/mc/engine"
	"verif/mc/gen"
	"verif/mc/model"
)

var c20Keys = []string{"a", "b", "c", "d", "ab", ""}

// c20Reenable is a pseudo document: EnableKeyCache is called again with the same capacity (the cache starts empty again)
const c20Reenable = -1

// documents: key lists (by index into c20Keys)
func c20Docs(tier string) [][]int {
	docs := [][]int{{0}, {1}, {2}, {3}, {4}}
	docs = append(docs, []int{0, 1}, []int{1, 0}, []int{0, 0}, []int{2, 3, 4}, []int{0, 1, 2}, []int{5}, []int{5, 0}, []int{c20Reenable})
	if tier == "thorough" {
		docs = append(docs, []int{3, 2, 1}, []int{4, 0}, []int{1, 1, 0})
	}
	return docs
}

type c20Target struct {
	name string
	mk   func() interface{}
	val  func(i int) []model.Event
}

func c20Targets() []c20Target {
	scalar := func(i int) []model.Event { return []model.Event{model.SInt(model.KInt8, int64(i))} }
	obj := func(i int) []model.Event {
		return []model.Event{model.ObjStart(-1, 0), model.KeyRef("x"), model.SInt(model.KInt8, int64(i)), model.ObjEnd()}
	}
	nested := func(i int) []model.Event {
		return []model.Event{model.ObjStart(1, 0), model.KeyRef(c20Keys[i%len(c20Keys)]), model.StrRef("v"), model.ObjEnd()}
	}
	inner := reflect.MapOf(reflect.TypeOf(""), gen.Inner)
	return []c20Target{
		{"map[string]int", func() interface{} { return &map[string]int{} }, scalar},
		{"map[string]interface{}", func() interface{} { return &map[string]interface{}{} }, scalar},
		{"map[string]Inner", func() interface{} { return reflect.New(inner).Interface() }, obj},
		{"map[string]map[string]string", func() interface{} { return &map[string]map[string]string{} }, nested},
		{"interface{}", func() interface{} { return new(interface{}) }, nested},
	}
}

func init() {
	register(func() {
		engine.Register(&engine.Check{
			ID: "C20", Level: "model_checking",
			Rule:        "explicit-state search over the unfolder's key cache: capacities 0-4 (thorough 0-6) x 5 target types x documents of 1-3 by-reference keys over the alphabet {a,b,c,d,ab,empty key} plus the operation 'EnableKeyCache again' (the key bytes are overwritten right after every callback); states = reflective fingerprint of the cache (recency-ordered key list); all histories to the unpruned depth, then breadth first to a fixpoint / depth bound; on every transition the unfolded map equals the map produced by an identical unfolder without cache, all maps produced earlier in the history are still intact, and nothing panics; an LRU reference model labels transitions as hit / miss / eviction / re-insertion-after-eviction and all four must have been reached",
			Assumptions: []string{"key alphabet of 6 keys (incl. the empty key), documents of at most 3 keys"},
			Families:    c20Families,
			Bounds: func(tier string) map[string]interface{} {
				return map[string]interface{}{"capacities": tierPick(tier, "0-4", "0-6"), "unpruned_depth": 2, "max_depth": tierPick(tier, 5, 7)}
			},
			Require: []string{"+transitions", "lru_hit", "lru_miss", "lru_eviction", "lru_reinsertion"},
		})
	})
}

func c20Families(tier string) []engine.Family {
	docs := c20Docs(tier)
	maxCap := tierPick(tier, 4, 6)
	opts := engine.BFSOpts{UnprunedDepth: 2, MaxDepth: tierPick(tier, 5, 7)}
	var fams []engine.Family
	for capN := 0; capN <= maxCap; capN++ {
		for _, tg := range c20Targets() {
			capN, tg := capN, tg
			name := fmt.Sprintf("cap%d-%s", capN, tg.name)
			events := func(doc []int) []model.Event {
				evs := []model.Event{model.ObjStart(len(doc), structform.AnyType)}
				for i, k := range doc {
					evs = append(evs, model.KeyRef(c20Keys[k]))
					evs = append(evs, tg.val(i+k)...)
				}
				return append(evs, model.ObjEnd())
			}
			runAll := func(cache bool, hist []int, op int) (results []string, u *gotype.Unfolder, bad string) {
				var err error
				u, err = gotype.NewUnfolder(nil)
				if err != nil {
					return nil, nil, err.Error()
				}
				if cache {
					u.EnableKeyCache(capN)
				}
				seq := append([]int{}, hist...)
				if op >= 0 {
					seq = append(seq, op)
				}
				var targets []interface{}
				res := guard(4000000, func() error {
					for _, d := range seq {
						if docs[d][0] == c20Reenable {
							if cache {
								u.EnableKeyCache(capN)
							}
							continue
						}
						t := tg.mk()
						targets = append(targets, t)
						if err := u.SetTarget(t); err != nil {
							return err
						}
						if _, err := model.Drive(structform.EnsureExtVisitor(u), events(docs[d])); err != nil {
							return err
						}
					}
					return nil
				})
				if res.Bad() {
					return nil, u, res.Symptom() + ": " + res.Panic + res.Where
				}
				if res.Err != nil {
					return nil, u, "error: " + res.Err.Error()
				}
				// dump all results only now: keys stored earlier must have survived the later documents
				for _, t := range targets {
					results = append(results, model.Dump(t))
				}
				return results, u, ""
			}
			m := &engine.BFSModel{Name: name, NumOps: len(docs),
				OpName: func(op int) string {
					if docs[op][0] == c20Reenable {
						return "EnableKeyCache again"
					}
					var ks []string
					for _, k := range docs[op] {
						ks = append(ks, fmt.Sprintf("%q", c20Keys[k]))
					}
					return "{" + strings.Join(ks, ",") + "}"
				},
				Run: func(h []int, op int) (string, string, string, string) {
					got, u, bad := runAll(true, h, op)
					if bad != "" {
						return "", "", "", bad
					}
					want, _, bad2 := runAll(false, h, op)
					if bad2 != "" {
						return "", "", "", "without cache: " + bad2
					}
					for i := range want {
						if got[i] != want[i] {
							return "", "", "", fmt.Sprintf("cache-changes-result: document %d of the history unfolds to %s with the cache and to %s without", i+1, trunc(got[i], 200), trunc(want[i], 200))
						}
					}
					out := ""
					if op >= 0 && docs[op][0] == c20Reenable {
						out = "re-enabled"
					} else if op >= 0 {
						out = got[len(got)-1]
					}
					full := model.Fingerprint(u, model.FPOpts{Skip: map[string]bool{"reg": true, "userReg": true}})
					return out, "", full, ""
				}}
			fams = append(fams, engine.Family{Name: name, Body: func(x *engine.Exec) {
				x.Sample(func() interface{} {
					return map[string]interface{}{"capacity": capN, "target": tg.name, "documents": len(docs), "example_history": []string{m.OpName(0), m.OpName(5), m.OpName(0)}}
				})
				engine.BFS(x, m, opts)
				// coverage labelling with an LRU reference model over all key sequences of the unpruned depth
				c20Label(x, capN, docs, 3)
			}})
		}
	}
	return fams
}

// c20Label replays all document sequences up to the given depth on a boring LRU reference and
// counts which kinds of transitions the alphabet reaches for this capacity.
func c20Label(x *engine.Exec, capN int, docs [][]int, depth int) {
	var rec func(seq []int)
	rec = func(seq []int) {
		if len(seq) == depth {
			var lru []string
			evicted := map[string]bool{}
			for _, d := range seq {
				if docs[d][0] == c20Reenable {
					lru = nil
					continue
				}
				for _, k := range docs[d] {
					key := c20Keys[k]
					pos := -1
					for i, e := range lru {
						if e == key {
							pos = i
						}
					}
					switch {
					case pos >= 0:
						lru = append(append(lru[:pos:pos], lru[pos+1:]...), key)
						x.Count("lru_hit", 1)
					case capN == 0:
						x.Count("lru_miss", 1)
					default:
						x.Count("lru_miss", 1)
						if evicted[key] {
							x.Count("lru_reinsertion", 1)
						}
						if len(lru) == capN {
							evicted[lru[0]] = true
							lru = lru[1:]
							x.Count("lru_eviction", 1)
						}
						lru = append(lru, key)
					}
				}
			}
			return
		}
		for d := range docs {
			rec(append(seq, d))
		}
	}
	rec(nil)
}
