package props

import (
	"errors"
	"fmt"

	structform "github.com/elastic/go-structform"
	"github.com/elastic/go-structform/gotype"

	"verif/mc/engine"
	"verif/mc/gen"
	"verif/mc/model"
)

var errInjected = errors.New("injected failure (verif sentinel)")

// failWriter fails the k-th write (0-based) and every later one.
type failWriter struct {
	k      int
	writes int
	failed int
}

func (w *failWriter) Write(p []byte) (int, error) {
	n := w.writes
	w.writes++
	if w.k >= 0 && n >= w.k {
		w.failed++
		return 0, errInjected
	}
	return len(p), nil
}

type c16T1 struct {
	A string            `struct:"a"`
	B []int             `struct:"b"`
	C map[string]string `struct:"c"`
	D *c16T2            `struct:"d"`
	E interface{}       `struct:"e"`
	F c16T2             `struct:",inline"`
}
type c16T2 struct {
	X int8    `struct:"x"`
	Y float64 `struct:"y,omitempty"`
	Z []c16T3 `struct:"z"`
}
type c16T3 struct {
	S string
}

var c16FoldValues = []interface{}{
	c16T1{A: "a", B: []int{1, 2}, C: map[string]string{"k": "v"}, D: &c16T2{X: 1, Y: 2, Z: []c16T3{{"s"}}}, E: []interface{}{1, "x", nil}, F: c16T2{X: 3}},
	map[string]interface{}{"a": []interface{}{true, map[string]interface{}{"b": 1.5}}},
	[]interface{}{map[string]int{"a": 1}, []string{"x", "y"}, []uint8{1, 2}, int64(5)},
	[]c16T2{{X: 1}, {X: 2, Y: 1, Z: []c16T3{{"a"}, {"b"}}}},
	map[string]c16T3{"a": {"x"}},
	"scalar", 42, nil, []bool{true, false}, map[string]bool{"t": true},
}

func init() {
	register(func() {
		engine.Register(&engine.Check{
			ID: "C16", Level: "fault_enumeration",
			Rule:        "fault enumeration: (a) for every event stream of the C01 language (trees, scalars, strings, lengths, extended events) x 3 encoders a dry run counts the W writes, then for EVERY k < W the k-th and all later writes fail; the event sequence must report an error no later than its last event; (b) for every document of the three wire languages x {Parse, ParseReader, Write in single bytes followed by a Write of the rest after the failure, byte-slice and reader Decoder.Next followed by a second Next}, for Fold of a set of Go values, and for the extended-event adapters, a dry run counts the E events, then for EVERY k < E the visitor fails at event k; the outermost call must return exactly the injected error and deliver no further event; a case = (producer/consumer, input, k), distinct by that triple; non-trivial = k > 0 (the fault is not at the very first step)",
			Assumptions: []string{"the failing writer keeps failing (as the property states)", "Fold is exercised on a fixed set of Go values and on the one-field, scalar-container, nested-inline and seed families of the Go type space of C11/C12"},
			Families:    c16Families,
			Require:     []string{"write_faults", "visitor_faults"},
		})
	})
}

func c16Families(tier string) []engine.Family {
	// (a) encoders
	streamMaxNodes = tierPick(tier, 4, 5) // every stream is run once per write index: one node less than C01
	defer func() { streamMaxNodes = 0 }()
	fams := streamFamilies(tierPick(tier, "quick", "thorough"), func(x *engine.Exec, c *StreamCase) {
		if c.Fam == "strings" && len(c.Evs[len(c.Evs)/2].S) > 600 {
			return
		}
		if c.Fam == "lengths" && len(c.Evs) > 600 {
			return
		}
		if c.Codec == codecJSON && model.HasNonFinite(c.Want) && c.Opts&JIgnoreFloat == 0 {
			return
		}
		dry := &failWriter{k: -1}
		if r := guard(int64(20000+400*streamSize(c.Evs)), func() error {
			enc := structform.EnsureExtVisitor(c.Codec.NewEnc(dry, c.Opts))
			_, err := model.Drive(enc, c.Evs)
			return err
		}); r.Bad() || r.Err != nil {
			return // not encodable (other checks' business)
		}
		W := dry.writes
		if W == 0 {
			return
		}
		if W > 200 && x.Tier != "thorough" && (c.Fam == "ext-sizes" || c.Fam == "deep") {
			// every fault position of a stream of W writes costs W*W/2 write calls: the streams of more than 200 writes
			// (typed containers of 127+ elements, nesting beyond 64) are left to the thorough tier
			x.Count("long_streams_left_to_thorough", 1)
			return
		}
		k := x.Choose(W)
		x.Case(fmt.Sprintf("w|%s|%d", c.Key(), k), k > 0)
		x.Sample(func() interface{} {
			m := c.Desc().(map[string]interface{})
			m["failing_write"] = k
			m["writes"] = W
			return m
		})
		fw := &failWriter{k: k}
		var idx int
		res := guard(int64(20000+400*streamSize(c.Evs)), func() error {
			enc := structform.EnsureExtVisitor(c.Codec.NewEnc(fw, c.Opts))
			var err error
			idx, err = model.Drive(enc, c.Evs)
			return err
		})
		x.Count("write_faults", 1)
		ent := c.Codec.Name + ".encoder"
		wit := func() interface{} {
			m := c.Desc().(map[string]interface{})
			m["failing_write"], m["writes"], m["failed_writes_seen"], m["err"] = k, W, fw.failed, errStr(res.Err)
			return m
		}
		if res.Bad() {
			x.Violation(ent, res.Symptom(), c.Class, res.Panic+res.Where, wit())
			return
		}
		if fw.failed == 0 {
			engine.Fail("fault position %d of %d not reached", k, W)
		}
		if res.Err == nil {
			x.Violation(ent, "error-lost", "write-error-lost:"+lastEventClass(c.Evs), fmt.Sprintf("write %d of %d (and all later) failed, every event returned nil", k, W), wit())
			return
		}
		if !errors.Is(res.Err, errInjected) {
			x.Violation(ent, "error-changed", c.Class, "encoder returned a different error: "+res.Err.Error(), wit())
			return
		}
		x.Outcome(fmt.Sprintf("%s|reported-at-event-%d-of-%d", c.Codec.Name, idx, len(c.Evs)))
	})
	for i := range fams {
		fams[i].Name = "enc-" + fams[i].Name
	}

	// (b) parsers
	sc := docScope{Nodes: tierPick(tier, 3, 4), UBJTypes: tierPick(tier, 8, 15), JSONTok: 0, JSONAtoms: 1, NumStride: tierPick(tier, 40, 8), Ctx: tierPick(tier, 3, 0), ScStride: tierPick(tier, 3, 1)}
	pf := allDocFamilies(sc, func(x *engine.Exec, c *DocCase) {
		if c.Ref.Status != model.Complete || len(c.Doc) > 600 {
			return
		}
		cd := c.Codec
		dry := model.NewRecorder()
		if r := guard(int64(20000+400*len(c.Doc)), func() error { return cd.Parse(exact(c.Doc), dry) }); r.Bad() || r.Err != nil {
			return // rejected or crashing input: other checks' business
		}
		E := len(dry.Evs)
		if E == 0 {
			return
		}
		k := x.Choose(E)
		entry := x.Choose(5)
		entryName := [...]string{"Parse", "ParseReader", "Write", "BytesDecoder.Next", "ReaderDecoder.Next"}[entry]
		x.Case(fmt.Sprintf("v|%s|%x|%d|%d", cd.Name, c.Doc, entry, k), k > 0)
		x.Sample(func() interface{} {
			m := c.Desc().(map[string]interface{})
			m["failing_event"], m["events"], m["entry"] = k, E, entryName
			return m
		})
		rec := &model.Recorder{FailAt: k, Err: errInjected}
		var laterErr error
		laterCalled := false
		res := guard(int64(40000+800*len(c.Doc)), func() error {
			switch entry {
			case 0:
				return cd.Parse(c.Doc, rec)
			case 1:
				_, err := cd.ParseReader(&chunkReader{doc: c.Doc, chunks: [][2]int{{0, len(c.Doc)}}}, rec)
				return err
			case 2:
				w := cd.NewWriter(rec)
				for i := range c.Doc {
					if _, err := w.Write(c.Doc[i : i+1]); err != nil {
						// "delivers no further event of that document": neither when the caller goes on writing the rest
						if i+1 < len(c.Doc) {
							if x.Bool() {
								w.Write(nil) // an empty write in between must not make the parser forget that it failed
							}
							_, laterErr = w.Write(c.Doc[i+1:])
							laterCalled = true
						}
						return err
					}
				}
				return nil
			default:
				var d Nexter
				if entry == 3 {
					d = cd.BytesDec(exact(c.Doc), rec)
				} else {
					d = cd.ReaderDec(&chunkReader{doc: c.Doc, chunks: [][2]int{{0, len(c.Doc)}}}, 7, rec)
				}
				err := d.Next()
				if err != nil {
					// ... nor when Next is called again
					laterErr = d.Next()
					laterCalled = true
				}
				return err
			}
		})
		if laterCalled && laterErr == nil && !res.Bad() && res.Err != nil && rec.After == 0 {
			x.Violation(cd.Name+"."+entryName, "later-call-succeeds", "visitor-error-forgotten:"+entryName, "after the visitor's error had been returned, the next call on the same instance returned nil", map[string]interface{}{"codec": cd.Name, "hex": hexs(c.Doc), "failing_event": k, "entry": entryName})
			return
		}
		if (entry == 2 || entry >= 3) && len(rec.Evs) <= k && res.Err == nil && !res.Bad() {
			// a Write sequence has no end-of-input: a trailing top-level JSON number is never reported
			x.Count("fault_not_reachable_without_end_of_input", 1)
			return
		}
		c16Visitor(x, cd.Name+"."+entryName, c.Class, res, rec, k, E, func() interface{} {
			m := c.Desc().(map[string]interface{})
			m["failing_event"], m["events"], m["entry"], m["err"], m["events_after_failure"] = k, E, entryName, errStr(res.Err), rec.After
			m["failing_event_kind"] = dry.Evs[k].String()
			return m
		}, dry.Evs[k])
	})
	var keep []engine.Family
	for _, f := range pf {
		switch f.Name {
		case "json-structure", "cbor-unsupported":
			continue
		}
		f.Name = "parse-" + f.Name
		keep = append(keep, f)
	}
	fams = append(fams, keep...)

	// (b) Fold
	fams = append(fams, engine.Family{Name: "fold", Body: func(x *engine.Exec) {
		vi := x.Choose(len(c16FoldValues))
		v := c16FoldValues[vi]
		plain := x.Bool() // plain visitor (adapters synthesised) or recorder with by-ref strings
		dry := model.NewRecorder()
		var dv structform.Visitor = dry
		if plain {
			dv = model.PlainRecorder{R: dry}
		}
		if r := guard(400000, func() error { return gotype.Fold(v, dv) }); r.Bad() || r.Err != nil {
			x.Count("fold_seed_value_rejected", 1) // C12's business
			return
		}
		E := len(dry.Evs)
		k := x.Choose(E)
		x.Case(fmt.Sprintf("f|%d|%v|%d", vi, plain, k), k > 0)
		x.Sample(func() interface{} {
			return map[string]interface{}{"go_value": fmt.Sprintf("%T %+v", v, v), "failing_event": k, "events": E}
		})
		rec := &model.Recorder{FailAt: k, Err: errInjected}
		var rv structform.Visitor = rec
		if plain {
			rv = model.PlainRecorder{R: rec}
		}
		res := guard(200000, func() error { return gotype.Fold(v, rv) })
		// map iteration order may move the failing event to another member of the same map: the
		// oracle only looks at what happens at and after event k, which is order-independent
		c16Visitor(x, "gotype.Fold", fmt.Sprintf("fold:%T", v), res, rec, k, E, func() interface{} {
			return map[string]interface{}{"go_value": fmt.Sprintf("%T %+v", v, v), "failing_event": k, "events": E, "err": errStr(res.Err), "events_after_failure": rec.After}
		}, model.Event{K: model.KNil})
	}})

	// (b) Fold over the Go type space of C11/C12 (every per-kind folder has its own error paths)
	for _, f := range goFamilies(tier, func(x *engine.Exec, c *GoCase) {
		if !c.V.IsValid() {
			return
		}
		v := c.V.Interface()
		dry := model.NewRecorder()
		if r := guard(400000, func() error { return gotype.Fold(v, dry, c.Opts...) }); r.Bad() || r.Err != nil {
			x.Count("fold_seed_value_rejected", 1) // C12's business
			return
		}
		E := len(dry.Evs)
		if E == 0 {
			return
		}
		k := x.Choose(E)
		x.Case(fmt.Sprintf("fg|%s|%d", c.Key(), k), k > 0)
		x.Sample(func() interface{} {
			m := c.Sample().(map[string]interface{})
			m["failing_event"], m["events"] = k, E
			return m
		})
		rec := &model.Recorder{FailAt: k, Err: errInjected}
		res := guard(200000, func() error { return gotype.Fold(v, rec, c.Opts...) })
		c16Visitor(x, "gotype.Fold", "fold:"+c.Class, res, rec, k, E, func() interface{} {
			m := c.Sample().(map[string]interface{})
			m["failing_event"], m["events"], m["err"], m["events_after_failure"] = k, E, errStr(res.Err), rec.After
			return m
		}, model.Event{K: model.KNil})
	}) {
		switch f.Name {
		case "struct1", "scalar-containers", "inline-nest", "seeds", "struct2-seeds":
			f.Name = "fold-" + f.Name
			fams = append(fams, f)
		}
	}

	// (b) adapters
	fams = append(fams, engine.Family{Name: "adapters", Body: func(x *engine.Exec) {
		exts := extAlphabet(tier == "thorough")
		ev := exts[x.Choose(len(exts))]
		evs := []model.Event{model.ArrStart(-1, structform.AnyType), ev, model.StrRef("tail"), model.ArrEnd()}
		exp := model.Expand(evs)
		E := len(exp)
		k := x.Choose(E)
		x.Case(fmt.Sprintf("a|%s|%d", model.EventsString(evs), k), k > 0)
		x.Sample(func() interface{} {
			return map[string]interface{}{"events": model.EventsString(evs), "failing_event": k}
		})
		rec := &model.Recorder{FailAt: k, Err: errInjected}
		res := guard(100000, func() error {
			_, err := model.Drive(structform.EnsureExtVisitor(model.PlainRecorder{R: rec}), evs)
			return err
		})
		c16Visitor(x, "structform.EnsureExtVisitor", leafClass(ev), res, rec, k, E, func() interface{} {
			return map[string]interface{}{"events": model.EventsString(evs), "failing_event": k, "err": errStr(res.Err), "events_after_failure": rec.After}
		}, model.Event{K: model.KNil})
	}})
	return fams
}

func extAlphabet(deep bool) []model.Event {
	return append(extEventsCache(deep), model.StrRef("by-ref"), model.Ext(model.KBytes, []byte{1, 2, 3}))
}

var extCache = map[bool][]model.Event{}

func extEventsCache(deep bool) []model.Event {
	if e, ok := extCache[deep]; ok {
		return e
	}
	e := genExt(deep)
	extCache[deep] = e
	return e
}

func lastEventClass(evs []model.Event) string {
	e := evs[len(evs)-1]
	if len(evs) == 1 {
		return "top-level:" + e.K.String()
	}
	return "last:" + e.K.String()
}

func c16Visitor(x *engine.Exec, ent, class string, res Result, rec *model.Recorder, k, E int, wit func() interface{}, failing model.Event) {
	x.Count("visitor_faults", 1)
	if res.Bad() {
		x.Violation(ent, res.Symptom(), class, res.Panic+res.Where, wit())
		return
	}
	if len(rec.Evs) <= k {
		// the producer delivered fewer events than in the dry run although no fault was injected yet: it behaves differently
		// between two runs / feeding modes of the same input (C02's and C17's business); nothing was injected, nothing to judge
		x.Count("fault_position_not_reached", 1)
		return
	}
	fc := "at:" + failing.K.String()
	if res.Err == nil {
		x.Violation(ent, "error-lost", "visitor-error-lost:"+fc, fmt.Sprintf("visitor failed at event %d of %d, producer returned nil", k, E), wit())
		return
	}
	if !errors.Is(res.Err, errInjected) {
		x.Violation(ent, "error-changed", "visitor-error-changed:"+fc, "producer returned a different error: "+res.Err.Error(), wit())
		return
	}
	if rec.After > 0 {
		x.Violation(ent, "event-after-error", "event-after-error:"+fc, fmt.Sprintf("%d events delivered after the failing event %d", rec.After, k), wit())
		return
	}
	x.Outcome(ent + "|propagated")
}

func genExt(deep bool) []model.Event { return gen.ExtEvents(deep) }
