package props

import (
	"io"

	"verif/mc/engine"
)

// chooseChunks enumerates how an n-byte document is cut into consecutive chunks.
// Mode 0 enumerates cut sets: every subset of the n-1 cut positions if n <= full (value
// choices), otherwise only subsets within the deviation bound (deviation choices).
// Further modes: all single bytes, fixed strides 2..8, and one empty write inserted at a
// chosen position of a chosen single cut.
func chooseChunks(x *engine.Exec, n, full int) [][2]int {
	if n == 0 {
		return nil
	}
	mode := x.Choose(4)
	switch mode {
	case 1:
		out := make([][2]int, 0, n)
		for i := 0; i < n; i++ {
			out = append(out, [2]int{i, i + 1})
		}
		return out
	case 2:
		s := 2 + x.Choose(7)
		var out [][2]int
		for i := 0; i < n; i += s {
			e := i + s
			if e > n {
				e = n
			}
			out = append(out, [2]int{i, e})
		}
		return out
	case 3:
		// one cut (or none) with an empty write before, at, or after it
		cut := x.Choose(n + 1)
		where := x.Choose(3)
		var out [][2]int
		if where == 0 {
			out = append(out, [2]int{0, 0})
		}
		if cut > 0 {
			out = append(out, [2]int{0, cut})
		}
		if where == 1 {
			out = append(out, [2]int{cut, cut})
		}
		if cut < n {
			out = append(out, [2]int{cut, n})
		}
		if where == 2 {
			out = append(out, [2]int{n, n})
		}
		return out
	}
	var out [][2]int
	start := 0
	cuts := 0
	for i := 1; i < n; i++ {
		var cut bool
		if n <= full {
			cut = x.Choose(2) == 1
		} else if n > 64 && cuts >= 2 {
			cut = false // documents of more than 64 bytes: at most two cuts, whatever the deviation bound
		} else {
			cut = x.Dev(2) == 1
		}
		if cut {
			cuts++
			out = append(out, [2]int{start, i})
			start = i
		}
	}
	return append(out, [2]int{start, n})
}

// chooseChunksLight: whole buffer, every single cut, all single bytes (n+1 schedules).
func chooseChunksLight(x *engine.Exec, n int) [][2]int {
	k := x.Choose(n + 1)
	switch {
	case k == 0:
		return [][2]int{{0, n}}
	case k == n:
		out := make([][2]int, 0, n)
		for i := 0; i < n; i++ {
			out = append(out, [2]int{i, i + 1})
		}
		return out
	}
	return [][2]int{{0, k}, {k, n}}
}

// chunkReader hands out exactly the chosen chunks, each from a private scratch buffer that is
// overwritten as soon as the next Read is issued.
type chunkReader struct {
	doc     []byte
	chunks  [][2]int
	i       int
	eofWith bool // return io.EOF together with the last chunk
	last    []byte
	reads   int
}

func (r *chunkReader) Read(p []byte) (int, error) {
	r.reads++
	for i := range r.last {
		r.last[i] = 0xAA
	}
	r.last = nil
	if r.i >= len(r.chunks) {
		return 0, io.EOF
	}
	c := r.chunks[r.i]
	if c[1]-c[0] > len(p) {
		// split a chunk that does not fit
		n := copy(p, r.doc[c[0]:c[0]+len(p)])
		r.chunks[r.i][0] += n
		r.last = p[:n]
		return n, nil
	}
	n := copy(p, r.doc[c[0]:c[1]])
	r.i++
	r.last = p[:n]
	if r.eofWith && r.i >= len(r.chunks) {
		return n, io.EOF
	}
	if n == 0 {
		// an empty chunk cannot be expressed as a read: skip to the next
		return r.Read(p)
	}
	return n, nil
}

func copyChunks(c [][2]int) [][2]int { return append([][2]int(nil), c...) }
