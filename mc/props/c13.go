package props

import (
	"fmt"
	"reflect"

	structform "github.com/elastic/go-structform"
	"github.com/elastic/go-structform/gotype"

	"verif/mc/engine"
	"verif/mc/gen"
	"verif/mc/model"
)

func init() {
	register(func() {
		engine.Register(&engine.Check{
			ID: "C13", Level: "exploration", Risky: true,
			Rule:        "(event stream, target) pairs on the real Unfolder: (1) every tree of <=N nodes over a leaf alphabet of all scalar kinds, delivered with strings/keys by value and by reference, into interface{}, []interface{} and map[string]interface{}; all extended events in 3 positions; (2) numeric cross product: every integer/float event kind x boundary value x every numeric target width (+ pointer, slice element with and without element-type hint, map value); (3) objects of up to 3 members over a 10-shape member alphabet (scalars, nested arrays/objects, typed arrays, extended events, by-reference strings inside) x struct targets built with reflect.StructOf that have a field for any subset of the members (the others are unknown and must be skipped with their whole value), plus a sentinel field and a '-' field that must stay untouched; (4) custom unfolders: an Expander target, a registered stateful UnfoldState, primitive and processing unfolders, at top level, as struct field, slice element and map value, for every scalar event kind x boundary value alone and inside arrays/objects - the custom state must receive exactly the stream's events and numbers; oracle: reference unfolder model.RefUnfold (exact generic value; matching fields assigned; numeric conversion exact whenever the value fits; no expectation otherwise) compared with model.SameGo; a case = (stream, delivery variant, target type); non-trivial = container stream or converting numeric pair",
			Assumptions: []string{"targets start zero (plus sentinels); merging into pre-filled containers is not explored", "where the value does not fit the target or the shape mismatches the statement makes no promise: only C14's no-crash oracle applies (counted as unspecified)"},
			Families:    c13Families,
			Require:     []string{"generic_compared", "numeric_compared", "struct_compared", "unknown_members_skipped", "custom_compared"},
		})
	})
}

func byRefVariant(evs []model.Event, ref bool) []model.Event {
	out := make([]model.Event, len(evs))
	copy(out, evs)
	for i := range out {
		if out[i].K == model.KString || out[i].K == model.KKey {
			out[i].Ref = ref
		}
	}
	return out
}

// unfoldInto runs the real unfolder; target is a pointer.
func unfoldInto(x *engine.Exec, entry, class, desc string, target interface{}, evs []model.Event) Result {
	x.Journal(entry, class, desc)
	return guard(int64(100000+400*streamSize(evs)), func() error {
		u, err := gotype.NewUnfolder(target)
		if err != nil {
			return fmt.Errorf("NewUnfolder: %w", err)
		}
		_, err = model.Drive(structform.EnsureExtVisitor(u), evs)
		return err
	})
}

type c13Member struct {
	key   string
	evs   []model.Event
	types []reflect.Type
}

func c13Members() []c13Member {
	tInt, tI64, tU8, tF64, tF32 := reflect.TypeOf(int(0)), reflect.TypeOf(int64(0)), reflect.TypeOf(uint8(0)), reflect.TypeOf(float64(0)), reflect.TypeOf(float32(0))
	tStr, tBool := reflect.TypeOf(""), reflect.TypeOf(false)
	tIfc := reflect.TypeOf((*interface{})(nil)).Elem()
	nested := reflect.StructOf([]reflect.StructField{{Name: "K", Type: tStr, Tag: `struct:"k"`}, {Name: "Keep", Type: tInt, Tag: `struct:"keep"`}})
	arrMixed := []model.Event{model.ArrStart(-1, 0), model.SInt(model.KInt8, 1), model.StrRef("x"), model.ArrStart(0, 0), model.ArrEnd(), model.ObjStart(1, 0), model.KeyRef("q"), model.Nil(), model.ObjEnd(), model.ArrEnd()}
	arrInts := []model.Event{model.ArrStart(3, structform.Int8Type), model.SInt(model.KInt8, 1), model.SInt(model.KInt8, -2), model.SInt(model.KInt8, 3), model.ArrEnd()}
	obj := []model.Event{model.ObjStart(-1, 0), model.KeyRef("k"), model.StrRef("v"), model.Key("n"), model.ObjStart(1, 0), model.KeyRef("d"), model.ArrStart(1, 0), model.UInt(model.KUint16, 300), model.ArrEnd(), model.ObjEnd(), model.ObjEnd()}
	objStr := []model.Event{model.ObjStart(2, structform.StringType), model.Key("p"), model.Str("1"), model.KeyRef("q"), model.StrRef(""), model.ObjEnd()}
	objObj := []model.Event{model.ObjStart(2, 0), model.KeyRef("x"), model.ObjStart(-1, 0), model.KeyRef("k"), model.StrRef("1"), model.ObjEnd(), model.Key("y"), model.ObjStart(1, 0), model.Key("k"), model.Str("2"), model.ObjEnd(), model.ObjEnd()}
	arrObj := []model.Event{model.ArrStart(-1, 0), model.ObjStart(-1, 0), model.KeyRef("k"), model.StrRef("1"), model.ObjEnd(), model.ObjStart(0, 0), model.ObjEnd(), model.ArrEnd()}
	return []c13Member{
		{"i", []model.Event{model.SInt(model.KInt8, 5)}, []reflect.Type{tInt, tI64, tU8, tF64, tIfc, reflect.PtrTo(tInt)}},
		{"s", []model.Event{model.StrRef("str")}, []reflect.Type{tStr, tIfc, reflect.PtrTo(tStr)}},
		{"b", []model.Event{model.Bool(true)}, []reflect.Type{tBool, tIfc}},
		{"n", []model.Event{model.Nil()}, []reflect.Type{reflect.PtrTo(tInt), tIfc}},
		{"f", []model.Event{model.F64(0x3ff8000000000000)}, []reflect.Type{tF64, tF32, tIfc}},
		{"a", arrMixed, []reflect.Type{reflect.SliceOf(tIfc), tIfc}},
		{"ai", arrInts, []reflect.Type{reflect.SliceOf(tInt), reflect.SliceOf(reflect.TypeOf(int8(0))), reflect.SliceOf(tIfc), tIfc, reflect.SliceOf(tF64), reflect.PtrTo(reflect.SliceOf(tInt)), reflect.PtrTo(reflect.PtrTo(reflect.SliceOf(tInt)))}},
		{"o", obj, []reflect.Type{reflect.MapOf(tStr, tIfc), tIfc, nested, reflect.PtrTo(nested), reflect.PtrTo(reflect.PtrTo(nested)), reflect.PtrTo(reflect.MapOf(tStr, tIfc))}},
		{"os", objStr, []reflect.Type{reflect.MapOf(tStr, tStr), tIfc, reflect.MapOf(tStr, tIfc)}},
		{"om", objObj, []reflect.Type{reflect.MapOf(tStr, nested), reflect.MapOf(tStr, reflect.PtrTo(nested)), reflect.MapOf(tStr, reflect.MapOf(tStr, tStr)), tIfc, reflect.MapOf(tStr, reflect.PtrTo(reflect.MapOf(tStr, tIfc)))}},
		{"ao", arrObj, []reflect.Type{reflect.SliceOf(nested), reflect.SliceOf(reflect.PtrTo(nested)), reflect.SliceOf(tIfc), reflect.SliceOf(reflect.MapOf(tStr, tStr))}},
		{"e", []model.Event{model.Ext(model.KUint16Array, []uint16{1, 65535})}, []reflect.Type{reflect.SliceOf(reflect.TypeOf(uint16(0))), reflect.SliceOf(tInt), tIfc}},
	}
}

func c13Families(tier string) []engine.Family {
	// leaf alphabet for generic trees: every scalar kind once, strings by value (variant makes them by-ref)
	leaves := []model.Event{model.SInt(model.KInt8, -1), model.Str("a"), model.Nil(), model.Bool(true), model.F64(0x3fe0000000000000),
		model.UInt(model.KUint64, 1<<64-1), model.SInt(model.KInt, -70000), model.F32(0x3dcccccd), model.UInt(model.KByte, 200), model.Str(""),
		model.SInt(model.KInt16, 300), model.SInt(model.KInt32, -1<<31), model.SInt(model.KInt64, 1<<62), model.UInt(model.KUint8, 255), model.UInt(model.KUint16, 1), model.UInt(model.KUint32, 1<<32-1), model.UInt(model.KUint, 7)}
	nLeaves := tierPick(tier, 7, len(leaves))
	maxNodes := tierPick(tier, 4, 5)
	exts := extEventsCache(tier == "thorough")
	ints := gen.IntEvents()
	floats := gen.FloatEvents()
	nums := append(append([]model.Event{}, ints...), floats...)
	numTargets := append([]gen.FieldType{}, gen.ScalarTypes...)
	members := c13Members()
	tIfc := reflect.TypeOf((*interface{})(nil)).Elem()

	generic := func(x *engine.Exec, evs []model.Event, class string) {
		want, err := model.ValueOf(evs)
		if err != nil {
			engine.Fail("ill-formed generated stream: %v", err)
		}
		ref := x.Bool()
		evs = byRefVariant(evs, ref)
		var target reflect.Value
		tsel := x.Choose(2)
		switch {
		case tsel == 1 && want.K == model.VArr:
			target = reflect.New(reflect.SliceOf(tIfc))
		case tsel == 1 && want.K == model.VObj:
			target = reflect.New(reflect.MapOf(reflect.TypeOf(""), tIfc))
		case tsel == 1:
			return
		default:
			target = reflect.New(tIfc)
		}
		desc := fmt.Sprintf("%v <- %s", target.Type().Elem(), model.EventsString(evs))
		x.Case(desc, len(evs) > 1)
		x.Sample(func() interface{} {
			return map[string]interface{}{"target": target.Type().Elem().String(), "events": model.EventsString(evs), "by_reference": ref}
		})
		res := unfoldInto(x, "gotype.Unfolder", class, desc, target.Interface(), evs)
		wit := func() interface{} {
			return map[string]interface{}{"target": target.Type().Elem().String(), "events": model.EventsString(evs), "err": errStr(res.Err), "result": trunc(model.Dump(target.Elem().Interface()), 300), "stream_value": trunc(want.String(), 300)}
		}
		if res.Bad() {
			x.Violation("gotype.Unfolder", res.Symptom(), class, res.Panic+res.Where, wit())
			return
		}
		if res.Err != nil {
			x.Violation("gotype.Unfolder", "matching-target-refused", class, errStr(res.Err), wit())
			return
		}
		got := model.RefFold(target.Elem().Interface())
		x.Count("generic_compared", 1)
		// a Go map holds one value per key (the last one delivered wins); NaN payloads are not
		// tracked through the float32<->float64 conversions of the hardware (a NaN stays a NaN)
		want = canonNaN(lastWins(want))
		got.V = canonNaN(got.V)
		if got.Refuse || !model.Equal(want, got.V, model.Exact) {
			x.Violation("gotype.Unfolder", "wrong-value", class, fmt.Sprintf("stream value %s, unfolded %s", trunc(want.String(), 250), trunc(got.V.String(), 250)), wit())
			return
		}
		x.Outcome(got.V.String())
	}

	typed := func(x *engine.Exec, fam string, target reflect.Value, evs []model.Event, class string, counter string) {
		want, err := model.ValueOf(evs)
		if err != nil {
			engine.Fail("ill-formed generated stream: %v", err)
		}
		// expected: a copy of the initial target with the reference assignment applied
		expected := reflect.New(target.Type().Elem())
		expected.Elem().Set(target.Elem())
		specified, why := model.RefUnfold(want, expected.Elem())
		desc := fmt.Sprintf("%v <- %s", target.Type().Elem(), model.EventsString(evs))
		x.Case(desc, true)
		x.Sample(func() interface{} {
			return map[string]interface{}{"target": target.Type().Elem().String(), "events": model.EventsString(evs), "specified": specified}
		})
		res := unfoldInto(x, "gotype.Unfolder", class, desc, target.Interface(), evs)
		wit := func() interface{} {
			return map[string]interface{}{"target": target.Type().Elem().String(), "events": model.EventsString(evs), "err": errStr(res.Err),
				"result": trunc(model.Dump(target.Elem().Interface()), 300), "expected": trunc(model.Dump(expected.Elem().Interface()), 300), "specified": specified, "unspecified_because": why}
		}
		if res.Bad() {
			x.Violation("gotype.Unfolder", res.Symptom(), class, res.Panic+res.Where, wit())
			return
		}
		if !specified {
			x.Count("unspecified", 1)
			return
		}
		if res.Err != nil {
			x.Violation("gotype.Unfolder", "matching-target-refused", class, errStr(res.Err), wit())
			return
		}
		x.Count(counter, 1)
		if ok, path := model.SameGo(expected.Elem(), target.Elem()); !ok {
			x.Violation("gotype.Unfolder", "wrong-value", class, "difference at "+path, wit())
			return
		}
		x.Outcome(model.Dump(target.Elem().Interface()))
	}

	// typed targets from the Go type space of C11/C12: the stream is the documented-mapping model of a value of
	// the type (not the library's own fold), unfolded into a zero variable of that type
	goTargets := goFamilies(tier, func(x *engine.Exec, c *GoCase) {
		if !c.V.IsValid() || noRoundTrip[c.Class] || gen.HasCustomFolder(c.T) || gen.ValueHasCustomFolder(c.V) {
			return
		}
		fe := model.RefFold(c.V.Interface())
		if ok, _ := model.UnfoldSupported(c.T); !ok || fe.Refuse {
			return
		}
		evs := byRefVariant(fe.V.Events(nil), x.Bool())
		if x.Bool() {
			for i := range evs {
				if evs[i].K == model.KArrStart || evs[i].K == model.KObjStart {
					evs[i].Len = -1
				}
			}
		}
		typed(x, "go-targets", reflect.New(c.T), evs, "go-target:"+c.Class, "struct_compared")
	})
	var fams []engine.Family
	for _, f := range goTargets {
		if f.Name == "plain" || f.Name == "struct2" || f.Name == "struct3" {
			continue // covered by numeric-cross / struct-members and by C11's round trips
		}
		f.Name = "go-targets-" + f.Name
		fams = append(fams, f)
	}
	return append(fams, []engine.Family{
		c13CustomFamily(tier),
		c13PrimitiveCross(tier),
		c13ProcessingCross(tier),
		{Name: "generic-trees", Arity: []int{nLeaves + 4, 2}, Body: func(x *engine.Exec) {
			t := gen.Tree(x, &gen.TreeOpts{MaxNodes: maxNodes, Leaves: leaves[:nLeaves], Keys: []string{"a", "b"}})
			generic(x, t.Events(nil), "generic:tree")
		}},
		{Name: "generic-deep", Body: func(x *engine.Exec) {
			// nesting 2..9 (the unfolder's scratch slots grow at 5 and 9), objects and arrays, with a sibling
			// member after the deep one at a chosen level, so that an ancestor completes after its deep child
			depth := 2 + x.Choose(8)
			kind := x.Choose(3) // 0 objects, 1 arrays, 2 alternating
			sibAt := x.Choose(depth)
			var open, close []model.Event
			for i := 0; i < depth; i++ {
				isObj := kind == 0 || (kind == 2 && i%2 == 0)
				if isObj {
					open = append(open, model.ObjStart(-1, 0), model.Key(string(rune('a'+i))))
				} else {
					open = append(open, model.ArrStart(-1, 0))
				}
			}
			for i := depth - 1; i >= 0; i-- {
				isObj := kind == 0 || (kind == 2 && i%2 == 0)
				if i == sibAt {
					if isObj {
						close = append(close, model.Key("k"), model.SInt(model.KInt8, 2))
					} else {
						close = append(close, model.SInt(model.KInt8, 2))
					}
				}
				if isObj {
					close = append(close, model.ObjEnd())
				} else {
					close = append(close, model.ArrEnd())
				}
			}
			evs := append(append(open, model.SInt(model.KInt8, 1)), close...)
			generic(x, evs, "generic:deep")
		}},
		{Name: "generic-scalars", Body: func(x *engine.Exec) {
			ev := append(append([]model.Event{}, nums...), leaves...)[x.Choose(len(nums)+len(leaves))]
			ctx := x.Choose(gen.NumContexts)
			generic(x, gen.Context(ctx, ev), "generic:"+leafClass(ev))
		}},
		{Name: "generic-ext", Body: func(x *engine.Exec) {
			ev := exts[x.Choose(len(exts))]
			ctx := []int{0, 1, 5}[x.Choose(3)]
			generic(x, gen.Context(ctx, ev), "generic:"+leafClass(ev))
		}},
		{Name: "numeric-cross", Arity: []int{len(numTargets)}, Body: func(x *engine.Exec) {
			tt := numTargets[x.Choose(len(numTargets))]
			ev := nums[x.Choose(len(nums))]
			shape := x.Choose(6)
			class := fmt.Sprintf("numeric:%v<-%v", tt.Name, ev.K)
			var target reflect.Value
			var evs []model.Event
			hint := structform.AnyType
			switch shape {
			case 0:
				target, evs = reflect.New(tt.T), []model.Event{ev}
			case 1:
				target, evs = reflect.New(reflect.PtrTo(tt.T)), []model.Event{ev}
			case 2, 3:
				if shape == 3 {
					hint = hintOf(ev.K)
				}
				target, evs = reflect.New(reflect.SliceOf(tt.T)), []model.Event{model.ArrStart(2, hint), ev, ev, model.ArrEnd()}
			case 4:
				target, evs = reflect.New(reflect.MapOf(reflect.TypeOf(""), tt.T)), []model.Event{model.ObjStart(-1, hintOf(ev.K)), model.KeyRef("k"), ev, model.ObjEnd()}
			default:
				st := reflect.StructOf([]reflect.StructField{{Name: "A", Type: tt.T}, {Name: "Z", Type: reflect.TypeOf(0), Tag: `struct:"zzz"`}})
				target = reflect.New(st)
				target.Elem().Field(1).SetInt(77)
				evs = []model.Event{model.ObjStart(1, 0), model.Key("a"), ev, model.ObjEnd()}
			}
			typed(x, "numeric-cross", target, evs, class, "numeric_compared")
		}},
		{Name: "skip-kinds", Arity: []int{len(leaves)}, Body: func(x *engine.Exec) {
			// an unknown member whose value holds every scalar event kind: bare, inside an array, inside an object, nested in
			// both - between two known members that must still be assigned
			ev := leaves[x.Choose(len(leaves))]
			if x.Bool() && (ev.K == model.KString) {
				ev.Ref = true
			}
			hint := structform.AnyType
			if x.Bool() {
				hint = hintOf(ev.K)
			}
			var skipped []model.Event
			switch x.Choose(5) {
			case 0:
				skipped = []model.Event{ev}
			case 1:
				skipped = []model.Event{model.ArrStart(2, hint), ev, ev, model.ArrEnd()}
			case 2:
				skipped = []model.Event{model.ObjStart(-1, hint), model.KeyRef("q"), ev, model.Key("r"), ev, model.ObjEnd()}
			case 3:
				skipped = []model.Event{model.ArrStart(-1, 0), ev, model.ObjStart(1, hint), model.Key("q"), ev, model.ObjEnd(), ev, model.ArrEnd()}
			default:
				skipped = []model.Event{model.ObjStart(2, 0), model.Key("q"), model.ArrStart(1, hint), ev, model.ArrEnd(), model.KeyRef("a"), ev, model.ObjEnd()}
			}
			st := reflect.StructOf([]reflect.StructField{{Name: "A", Type: reflect.TypeOf(0), Tag: `struct:"a"`}, {Name: "B", Type: reflect.TypeOf(""), Tag: `struct:"b"`}, {Name: "Z", Type: reflect.TypeOf(0), Tag: `struct:"zzz"`}})
			target := reflect.New(st)
			target.Elem().Field(2).SetInt(77)
			evs := append([]model.Event{model.ObjStart(-1, 0), model.Key("a"), model.SInt(model.KInt8, 1), model.KeyRef("unknown")}, skipped...)
			evs = append(evs, model.KeyRef("b"), model.StrRef("after"), model.ObjEnd())
			x.Count("unknown_members_skipped", 1)
			typed(x, "skip-kinds", target, evs, "skip:"+leafClass(ev), "struct_compared")
		}},
		{Name: "struct-members", Arity: []int{len(members) + 1, len(members) + 1}, Body: func(x *engine.Exec) {
			// choose up to 3 distinct members in order
			var sel []int
			used := map[int]bool{}
			for len(sel) < 3 {
				k := x.Choose(len(members) + 1)
				if k == 0 {
					break
				}
				if used[k-1] {
					return // selections with repetition are not part of the space
				}
				used[k-1] = true
				sel = append(sel, k-1)
			}
			if len(sel) == 0 {
				return
			}
			refKeys := x.Bool()
			known := x.Bool()
			var fields []reflect.StructField
			var evs []model.Event
			l := -1
			if known {
				l = len(sel)
			}
			evs = append(evs, model.ObjStart(l, 0))
			unknown := 0
			for i, mi := range sel {
				m := members[mi]
				k := model.Key(m.key)
				k.Ref = refKeys
				evs = append(evs, k)
				evs = append(evs, m.evs...)
				ft := x.Choose(len(m.types) + 1)
				if ft == 0 {
					unknown++
					continue
				}
				fields = append(fields, reflect.StructField{Name: fmt.Sprintf("F%d", i), Type: m.types[ft-1], Tag: reflect.StructTag(fmt.Sprintf(`struct:%q`, m.key))})
			}
			evs = append(evs, model.ObjEnd())
			fields = append(fields, reflect.StructField{Name: "Z", Type: reflect.TypeOf(0), Tag: `struct:"zzz"`},
				reflect.StructField{Name: "Y", Type: reflect.TypeOf(""), Tag: `struct:"-"`})
			st := reflect.StructOf(fields)
			target := reflect.New(st)
			target.Elem().FieldByName("Z").SetInt(77)
			target.Elem().FieldByName("Y").SetString("keep")
			if unknown > 0 {
				x.Count("unknown_members_skipped", int64(unknown))
			}
			typed(x, "struct-members", target, evs, fmt.Sprintf("struct:%d-members:%d-unknown", len(sel), unknown), "struct_compared")
		}},
	}...)
}

func hintOf(k model.Kind) structform.BaseType {
	switch k {
	case model.KInt8:
		return structform.Int8Type
	case model.KInt16:
		return structform.Int16Type
	case model.KInt32:
		return structform.Int32Type
	case model.KInt64:
		return structform.Int64Type
	case model.KInt:
		return structform.IntType
	case model.KByte:
		return structform.ByteType
	case model.KUint8:
		return structform.Uint8Type
	case model.KUint16:
		return structform.Uint16Type
	case model.KUint32:
		return structform.Uint32Type
	case model.KUint64:
		return structform.Uint64Type
	case model.KUint:
		return structform.UintType
	case model.KFloat32:
		return structform.Float32Type
	case model.KFloat64:
		return structform.Float64Type
	}
	return structform.AnyType
}

func lastWins(v model.Value) model.Value {
	if v.K != model.VObj && v.K != model.VArr {
		return v
	}
	out := v
	out.Elems = nil
	out.Keys = nil
	if v.K == model.VArr {
		for _, e := range v.Elems {
			out.Elems = append(out.Elems, lastWins(e))
		}
		return out
	}
	last := map[string]int{}
	for i, k := range v.Keys {
		last[k] = i
	}
	for i, k := range v.Keys {
		if last[k] == i {
			out.Keys = append(out.Keys, k)
			out.Elems = append(out.Elems, lastWins(v.Elems[i]))
		}
	}
	out.Unordered = true
	return out
}

func canonNaN(v model.Value) model.Value {
	switch v.K {
	case model.VF32:
		if model.HasNonFinite(v) && v.Bits&0x7fffff != 0 {
			return model.F32V(0x7fc00000)
		}
	case model.VF64:
		if model.HasNonFinite(v) && v.Bits&0xfffffffffffff != 0 {
			return model.F64V(0x7ff8000000000000)
		}
	case model.VArr, model.VObj:
		out := v
		out.Elems = make([]model.Value, len(v.Elems))
		for i, e := range v.Elems {
			out.Elems[i] = canonNaN(e)
		}
		return out
	}
	return v
}
