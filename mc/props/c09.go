package props

import (
	"fmt"
	"strings"

	structform "github.com/elastic/go-structform"

	"verif/mc/engine"
	"verif/mc/model"
)

func init() {
	register(func() {
		engine.Register(&engine.Check{
			ID: "C09", Level: "exploration", Risky: true,
			Rule:        "a contract monitor (balanced and properly nested finish events, exactly one key before every object value, announced non-negative length == number of elements, announced element type == kind of every element, nothing after a finished one-value stream) is placed behind every producer: the three parsers on every accepted document of the C04-C06 languages (Parse and byte-wise Write), Fold of every (Go type, value) of the C12 space (plain visitor and by-reference visitor), and the extended-event adapters for all 29 extended events x contents; a case = (producer, input), non-trivial = the stream contains at least one container",
			Assumptions: []string{"bounds of the underlying languages as in C04-C06 and C12"},
			Families:    c09Families,
			Require:     []string{"streams_monitored_parser", "streams_monitored_fold", "streams_monitored_adapter", "announced_lengths_checked"},
		})
	})
}

func hasContainer(evs []model.Event) bool {
	for _, e := range evs {
		if e.K == model.KArrStart || e.K == model.KObjStart {
			return true
		}
	}
	return false
}

func monitor(x *engine.Exec, entry, class string, evs []model.Event, single bool, wit func() interface{}) bool {
	for _, e := range evs {
		if (e.K == model.KArrStart || e.K == model.KObjStart) && e.Len >= 0 {
			x.Count("announced_lengths_checked", 1)
		}
		if (e.K == model.KArrStart || e.K == model.KObjStart) && e.BT != structform.AnyType {
			x.Count("announced_types_checked", 1)
		}
	}
	if rule, idx := model.CheckContract(evs, true, single); rule != "" {
		x.Violation(entry, "contract:"+rule, class, fmt.Sprintf("event %d of %d", idx, len(evs)), wit())
		return false
	}
	return true
}

func c09Families(tier string) []engine.Family {
	// parser part: the quick conformance languages in both tiers (the thorough conformance languages times
	// two feeding modes did not finish within the internal deadline); the thorough tier deepens the Go type space
	sc := conformScope("quick")
	sc.JSONTok = tierPick(tier, 5, 6)
	fams := allDocFamilies(sc, func(x *engine.Exec, c *DocCase) {
		if c.Ref.Status != model.Complete {
			return
		}
		mode := x.Choose(2)
		rec := model.NewRecorder()
		res := guard(int64(20000+400*len(c.Doc)), func() error {
			if mode == 0 {
				return c.Codec.Parse(c.Doc, rec)
			}
			w := c.Codec.NewWriter(rec)
			for i := range c.Doc {
				if _, err := w.Write(c.Doc[i : i+1]); err != nil {
					return err
				}
			}
			return nil
		})
		if res.Bad() || res.Err != nil {
			return // rejected input: outside C09 (C03-C06 judge that)
		}
		x.Case(fmt.Sprintf("%s|%d|%s", c.Codec.Name, mode, c.Doc), hasContainer(rec.Evs))
		x.Sample(c.Desc)
		x.Count("streams_monitored_parser", 1)
		single := len(c.Ref.Values) == 1 && mode == 0
		if monitor(x, c.Codec.Name+".Parser", c.Class, rec.Evs, single, func() interface{} {
			m := c.Desc().(map[string]interface{})
			m["events"] = trunc(model.EventsString(rec.Evs), 500)
			return m
		}) {
			x.Outcome(c.Codec.Name + fmt.Sprint(len(rec.Evs)))
		}
	})
	for i := range fams {
		fams[i].Name = "parse-" + fams[i].Name
	}
	fams = append(fams, goFamilies(tier, func(x *engine.Exec, c *GoCase) {
		plain := x.Bool()
		x.Case(fmt.Sprintf("%s|%v", c.Key(), plain), true)
		x.Sample(c.Sample)
		rec := model.NewRecorder()
		var vs structform.Visitor = rec
		if plain {
			vs = model.PlainRecorder{R: rec}
		}
		x.Journal("gotype.Fold", c.Class, c.Desc)
		var in interface{}
		if c.V.IsValid() {
			in = c.V.Interface()
		}
		res := guard(400000, func() error { return foldWith(in, vs, c) })
		if res.Bad() || res.Err != nil {
			x.Count("fold_refused_or_crashed", 1) // C11/C12 judge that
			return
		}
		x.Count("streams_monitored_fold", 1)
		if monitor(x, "gotype.Fold", c.Class, rec.Evs, true, func() interface{} {
			m := c.Sample().(map[string]interface{})
			m["events"] = trunc(model.EventsString(rec.Evs), 500)
			return m
		}) {
			x.Outcome(fmt.Sprint(len(rec.Evs)))
		}
	})...)
	// "the three parsers on accepted input": ANY input a parser accepts - including byte strings no encoder would write -
	// must come with a well-formed event stream. The byte-string space of C03 (all strings of <= 2 bytes, all strings of <= 4
	// symbols of the reduced alphabets, hostile length arguments, every single-byte edit of the valid corpus); whatever
	// Parse (which knows where the input ends) accepts is monitored.
	for _, f := range c03FamiliesWith("quick", func(x *engine.Exec, cd *Codec, in []byte, fam string, _ [][3]int) {
		if len(in) > 4096 {
			return
		}
		rec := model.NewRecorder()
		res := guard(int64(20000+400*len(in)), func() error { return cd.Parse(exact(in), rec) })
		if res.Bad() || res.Err != nil {
			return // rejected input: outside C09 (C03-C06 judge that)
		}
		x.Count("accepted_inputs_monitored", 1)
		monitor(x, cd.Name+".Parser", "accepted:"+fam, rec.Evs, false, func() interface{} {
			return map[string]interface{}{"codec": cd.Name, "hex": hexs(in), "text": trunc(fmt.Sprintf("%q", in), 120), "events": trunc(model.EventsString(rec.Evs), 500)}
		})
	}) {
		if strings.HasPrefix(f.Name, "scaling") {
			continue
		}
		f.Name = "accepted-" + f.Name
		fams = append(fams, f)
	}
	fams = append(fams, engine.Family{Name: "adapters", Body: func(x *engine.Exec) {
		exts := extAlphabet(tier == "thorough")
		ev := exts[x.Choose(len(exts))]
		ctx := x.Choose(3)
		var evs []model.Event
		switch ctx {
		case 0:
			evs = []model.Event{ev}
		case 1:
			evs = []model.Event{model.ArrStart(2, 0), ev, model.Nil(), model.ArrEnd()}
		default:
			evs = []model.Event{model.ObjStart(1, 0), model.KeyRef("k"), ev, model.ObjEnd()}
		}
		x.Case(model.EventsString(evs), true)
		x.Sample(func() interface{} { return map[string]interface{}{"events": model.EventsString(evs)} })
		rec := model.NewRecorder()
		res := guard(200000, func() error {
			_, err := model.Drive(structform.EnsureExtVisitor(model.PlainRecorder{R: rec}), evs)
			return err
		})
		if res.Bad() || res.Err != nil {
			x.Violation("structform.EnsureExtVisitor", "adapter-failed", leafClass(ev), res.Panic+errStr(res.Err), map[string]interface{}{"events": model.EventsString(evs)})
			return
		}
		x.Count("streams_monitored_adapter", 1)
		monitor(x, "structform.EnsureExtVisitor", leafClass(ev), rec.Evs, true, func() interface{} {
			return map[string]interface{}{"events": model.EventsString(evs), "adapter_events": trunc(model.EventsString(rec.Evs), 500)}
		})
	}})
	return fams
}
