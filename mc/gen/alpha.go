// Package gen holds the alphabets and enumerators shared by the checks.
// Everything is enumerated through an engine.Exec, simplest first.
package gen

import (
	"math"
	"strings"

	"verif/mc/model"
)

// boundary integers: both sides of every width boundary of the three codecs.
var boundaryU = []uint64{0, 1, 23, 24, 127, 128, 255, 256, 32767, 32768, 65535, 65536,
	1<<31 - 1, 1 << 31, 1<<32 - 1, 1 << 32, 1<<63 - 1, 1 << 63, 1<<64 - 1}

var boundaryNeg = []int64{-1, -24, -25, -128, -129, -256, -257, -32768, -32769, -65536, -65537,
	-1 << 31, -1<<31 - 1, -1 << 32, -1<<32 - 1, -1 << 63}

var sRange = map[model.Kind][2]int64{
	model.KInt8: {math.MinInt8, math.MaxInt8}, model.KInt16: {math.MinInt16, math.MaxInt16},
	model.KInt32: {math.MinInt32, math.MaxInt32}, model.KInt64: {math.MinInt64, math.MaxInt64},
	model.KInt: {math.MinInt64, math.MaxInt64},
}
var uRange = map[model.Kind]uint64{
	model.KByte: math.MaxUint8, model.KUint8: math.MaxUint8, model.KUint16: math.MaxUint16,
	model.KUint32: math.MaxUint32, model.KUint64: math.MaxUint64, model.KUint: math.MaxUint64,
}

// SignedKinds / UnsignedKinds list the integer event kinds.
var SignedKinds = []model.Kind{model.KInt8, model.KInt16, model.KInt32, model.KInt64, model.KInt}
var UnsignedKinds = []model.Kind{model.KByte, model.KUint8, model.KUint16, model.KUint32, model.KUint64, model.KUint}

// IntEvents returns every integer event kind x every boundary value in its range.
func IntEvents() []model.Event {
	var out []model.Event
	for _, k := range SignedKinds {
		r := sRange[k]
		for _, u := range boundaryU {
			if u <= uint64(r[1]) {
				out = append(out, model.SInt(k, int64(u)))
			}
		}
		for _, n := range boundaryNeg {
			if n >= r[0] {
				out = append(out, model.SInt(k, n))
			}
		}
	}
	for _, k := range UnsignedKinds {
		for _, u := range boundaryU {
			if u <= uRange[k] {
				out = append(out, model.UInt(k, u))
			}
		}
	}
	return out
}

// Float64Bits / Float32Bits: the float alphabet as bit patterns.
var Float64Bits = []uint64{
	0, 1 << 63, // +0 -0
	math.Float64bits(1), math.Float64bits(-1), math.Float64bits(0.1), math.Float64bits(3.14), math.Float64bits(0.5),
	math.Float64bits(16777217), math.Float64bits(1 << 53), math.Float64bits(1<<53 + 2), math.Float64bits(1e21), math.Float64bits(1e20),
	math.Float64bits(1e-7), math.Float64bits(123456789.125), math.Float64bits(100000000),
	1, 0x000FFFFFFFFFFFFF, 0x0010000000000000, math.Float64bits(math.MaxFloat64), math.Float64bits(-math.MaxFloat64),
	math.Float64bits(9223372036854775808.0), math.Float64bits(18446744073709551616.0), math.Float64bits(-9223372036854775808.0),
	math.Float64bits(math.Inf(1)), math.Float64bits(math.Inf(-1)),
	0x7FF8000000000000, 0x7FF8000000000001, 0x7FF0000000000001, 0xFFF8000000000000,
}

var Float32Bits = []uint32{
	0, 1 << 31,
	math.Float32bits(1), math.Float32bits(-1), math.Float32bits(0.1), math.Float32bits(3.14), math.Float32bits(0.5),
	math.Float32bits(16777216), math.Float32bits(1e21), math.Float32bits(1e-7), math.Float32bits(123456.125), math.Float32bits(1e8),
	1, 0x007FFFFF, 0x00800000, math.Float32bits(math.MaxFloat32), math.Float32bits(-math.MaxFloat32),
	math.Float32bits(float32(math.Inf(1))), math.Float32bits(float32(math.Inf(-1))),
	0x7FC00000, 0x7FC00001, 0x7F800001, 0xFFC00000,
}

// FloatEvents returns the float alphabet as events.
func FloatEvents() []model.Event {
	var out []model.Event
	for _, b := range Float32Bits {
		out = append(out, model.F32(b))
	}
	for _, b := range Float64Bits {
		out = append(out, model.F64(b))
	}
	return out
}

// StringAtoms is the atom alphabet strings are concatenated from.
var StringAtoms = []string{
	"a", `"`, `\`, "/", "<", ">", "&", "\x00", "\x1f", "\n", "\t", "\x7f",
	"é", "€", " ", " ", "\U0001F600",
	"\xff", "\xc3", "\xed\xa0\x80", "�",
	// more ill-formed UTF-8: overlong 2- and 3-byte forms, beyond U+10FFFF, 5-byte form, lone continuation byte
	"\xc0\x80", "\xc1\xbf", "\xe0\x80\x80", "\xf4\x90\x80\x80", "\xf8\x88\x80\x80\x80", "\x80",
}

// LongLens are the string lengths that cross length-width and buffer boundaries.
var LongLens = []int{23, 24, 63, 64, 65, 127, 128, 255, 256, 32767, 32768, 65535, 65536}

// Strings returns all concatenations of at most n atoms (including "") plus the long strings.
func Strings(n int, long bool) []string {
	out := []string{""}
	level := []string{""}
	for i := 0; i < n; i++ {
		var next []string
		for _, p := range level {
			for _, a := range StringAtoms {
				next = append(next, p+a)
			}
		}
		out = append(out, next...)
		level = next
	}
	if long {
		for _, l := range LongLens {
			out = append(out, strings.Repeat("a", l))
		}
	}
	return out
}

// Keys is the key alphabet.
var Keys = []string{"a", "", "b", "é", strings.Repeat("k", 24), strings.Repeat("k", 256)}

// ScalarLeaves: a small leaf alphabet for tree shapes (simplest first).
func ScalarLeaves(n int) []model.Event {
	all := []model.Event{
		model.SInt(model.KInt8, 1), model.Str("a"), model.Nil(), model.Bool(true),
		model.F64(math.Float64bits(0.5)), model.UInt(model.KUint16, 300), model.SInt(model.KInt64, -70000), model.Str(""),
	}
	if n > len(all) {
		n = len(all)
	}
	return all[:n]
}
