package gen

import (
	"reflect"

	structform "github.com/elastic/go-structform"
)

// Compiled seed types with methods (cannot be built with reflect.StructOf). They are used as
// top-level values by the checks and as field types of generated structs.

type SeedMyInt int
type SeedMyStr string
type SeedMyMap map[string]int
type SeedMySlice []string
type SeedMyArr [2]uint8
type SeedMyIfc interface{ M() }

// Folder with value receiver / pointer receiver
type SeedFolderV struct{ A int }

func (f SeedFolderV) Fold(v structform.ExtVisitor) error {
	if err := v.OnObjectStart(1, structform.AnyType); err != nil {
		return err
	}
	if err := v.OnKey("custom"); err != nil {
		return err
	}
	if err := v.OnInt(f.A); err != nil {
		return err
	}
	return v.OnObjectFinished()
}

type SeedFolderP struct{ A int }

func (f *SeedFolderP) Fold(v structform.ExtVisitor) error {
	if err := v.OnObjectStart(-1, structform.AnyType); err != nil {
		return err
	}
	if err := v.OnKey("customp"); err != nil {
		return err
	}
	if err := v.OnInt(f.A); err != nil {
		return err
	}
	return v.OnObjectFinished()
}

// IsZeroer with value receiver / pointer receiver
type SeedZeroV struct{ N int }

func (z SeedZeroV) IsZero() bool { return z.N == 0 }

type SeedZeroP struct{ N int }

func (z *SeedZeroP) IsZero() bool { return z.N == 0 }

// SeedTags is a named slice of primitives with its own Fold (value receiver).
type SeedTags []string

func (t SeedTags) Fold(v structform.ExtVisitor) error {
	s := ""
	for i, x := range t {
		if i > 0 {
			s += ","
		}
		s += x
	}
	return v.OnString("tags:" + s)
}

// SeedCounts is a named map of primitives with its own Fold (pointer receiver).
type SeedCounts map[string]int

func (c *SeedCounts) Fold(v structform.ExtVisitor) error {
	n := 0
	for _, x := range *c {
		n += x
	}
	return v.OnInt(n)
}

// SeedFieldTypes are the seed types used as field types of generated structs.
func SeedFieldTypes() []FieldType {
	return []FieldType{
		{"SeedZeroV", reflect.TypeOf(SeedZeroV{})}, {"SeedZeroP", reflect.TypeOf(SeedZeroP{})}, {"*SeedZeroP", reflect.TypeOf(&SeedZeroP{})},
		{"SeedFolderV", reflect.TypeOf(SeedFolderV{})}, {"SeedFolderP", reflect.TypeOf(SeedFolderP{})}, {"*SeedFolderV", reflect.TypeOf(&SeedFolderV{})},
		{"SeedMyInt", reflect.TypeOf(SeedMyInt(0))}, {"SeedMyStr", reflect.TypeOf(SeedMyStr(""))}, {"SeedMyMap", reflect.TypeOf(SeedMyMap(nil))},
		{"SeedMySlice", reflect.TypeOf(SeedMySlice(nil))},
		{"SeedTags", reflect.TypeOf(SeedTags(nil))}, {"SeedCounts", reflect.TypeOf(SeedCounts(nil))}, {"[]SeedTags", reflect.TypeOf([]SeedTags(nil))},
		{"map[string]SeedCounts", reflect.TypeOf(map[string]SeedCounts(nil))},
	}
}

// HasCustomFolder tells whether values of t (or of a type nested in it) are folded by a Fold method.
func HasCustomFolder(t reflect.Type) bool { return hasFolder(t, map[reflect.Type]bool{}) }

func hasFolder(t reflect.Type, seen map[reflect.Type]bool) bool {
	if seen[t] {
		return false
	}
	seen[t] = true
	if _, ok := t.MethodByName("Fold"); ok {
		return true
	}
	if t.Kind() != reflect.Ptr {
		if _, ok := reflect.PtrTo(t).MethodByName("Fold"); ok {
			return true
		}
	}
	switch t.Kind() {
	case reflect.Ptr, reflect.Slice, reflect.Array, reflect.Map:
		return hasFolder(t.Elem(), seen)
	case reflect.Struct:
		for i := 0; i < t.NumField(); i++ {
			if hasFolder(t.Field(i).Type, seen) {
				return true
			}
		}
	}
	return false
}

// ValueHasCustomFolder tells whether folding v reaches a value whose type has a Fold method.
func ValueHasCustomFolder(v reflect.Value) bool {
	if !v.IsValid() {
		return false
	}
	if HasCustomFolder(v.Type()) {
		return true
	}
	switch v.Kind() {
	case reflect.Interface, reflect.Ptr:
		if v.IsNil() {
			return false
		}
		return ValueHasCustomFolder(v.Elem())
	case reflect.Slice, reflect.Array:
		for i := 0; i < v.Len(); i++ {
			if ValueHasCustomFolder(v.Index(i)) {
				return true
			}
		}
	case reflect.Map:
		for _, k := range v.MapKeys() {
			if ValueHasCustomFolder(v.MapIndex(k)) {
				return true
			}
		}
	case reflect.Struct:
		for i := 0; i < v.NumField(); i++ {
			if ValueHasCustomFolder(v.Field(i)) {
				return true
			}
		}
	}
	return false
}

// one named type per primitive kind (folded / unfolded through the kind-based reflection paths)
type (
	SeedMyBool bool
	SeedMyU    uint
	SeedMyU8   uint8
	SeedMyU16  uint16
	SeedMyU32  uint32
	SeedMyU64  uint64
	SeedMyI8   int8
	SeedMyI16  int16
	SeedMyI32  int32
	SeedMyI64  int64
	SeedMyF32  float32
	SeedMyF64  float64
)

// NamedScalarTypes returns the named primitive types (one per kind).
func NamedScalarTypes() []FieldType {
	return []FieldType{
		{"SeedMyBool", reflect.TypeOf(SeedMyBool(false))}, {"SeedMyInt", reflect.TypeOf(SeedMyInt(0))}, {"SeedMyStr", reflect.TypeOf(SeedMyStr(""))},
		{"SeedMyU", reflect.TypeOf(SeedMyU(0))}, {"SeedMyU8", reflect.TypeOf(SeedMyU8(0))}, {"SeedMyU16", reflect.TypeOf(SeedMyU16(0))}, {"SeedMyU32", reflect.TypeOf(SeedMyU32(0))},
		{"SeedMyU64", reflect.TypeOf(SeedMyU64(0))}, {"SeedMyI8", reflect.TypeOf(SeedMyI8(0))}, {"SeedMyI16", reflect.TypeOf(SeedMyI16(0))}, {"SeedMyI32", reflect.TypeOf(SeedMyI32(0))},
		{"SeedMyI64", reflect.TypeOf(SeedMyI64(0))}, {"SeedMyF32", reflect.TypeOf(SeedMyF32(0))}, {"SeedMyF64", reflect.TypeOf(SeedMyF64(0))},
	}
}

// IsZeroer implementations on types whose kind has a size (array, string, slice, map)
type SeedZeroArr [4]byte

func (z SeedZeroArr) IsZero() bool { return z == SeedZeroArr{} }

type SeedZeroStr string

func (z SeedZeroStr) IsZero() bool { return z == "" || z == "zero" }

type SeedZeroSlice []int

func (z SeedZeroSlice) IsZero() bool { return len(z) == 0 || z[0] == 0 }

type SeedZeroMap map[string]int

func (z *SeedZeroMap) IsZero() bool { return (*z)["x"] == 0 }
