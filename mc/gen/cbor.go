package gen

import (
	"encoding/binary"
	"math"
	"strings"

	"verif/mc/engine"
)

// CBORHead encodes an initial byte + argument in the given width (0 = direct, 1, 2, 4, 8 bytes).
func CBORHead(major byte, arg uint64, width int) []byte {
	switch width {
	case 0:
		return []byte{major<<5 | byte(arg)}
	case 1:
		return []byte{major<<5 | 24, byte(arg)}
	case 2:
		b := []byte{major<<5 | 25, 0, 0}
		binary.BigEndian.PutUint16(b[1:], uint16(arg))
		return b
	case 4:
		b := []byte{major<<5 | 26, 0, 0, 0, 0}
		binary.BigEndian.PutUint32(b[1:], uint32(arg))
		return b
	default:
		b := []byte{major<<5 | 27, 0, 0, 0, 0, 0, 0, 0, 0}
		binary.BigEndian.PutUint64(b[1:], arg)
		return b
	}
}

// CBORWidths lists every width that can hold arg (minimal first).
func CBORWidths(arg uint64) []int {
	var w []int
	if arg < 24 {
		w = append(w, 0)
	}
	if arg <= math.MaxUint8 {
		w = append(w, 1)
	}
	if arg <= math.MaxUint16 {
		w = append(w, 2)
	}
	if arg <= math.MaxUint32 {
		w = append(w, 4)
	}
	return append(w, 8)
}

// CBORArgs: boundary arguments (both sides of every width and of the sign bit of every width).
var CBORArgs = []uint64{0, 1, 23, 24, 127, 128, 199, 255, 256, 32767, 32768, 65535, 65536,
	1<<31 - 1, 1 << 31, 1<<32 - 1, 1 << 32, 1<<63 - 1, 1 << 63, 1<<64 - 1}

// CBORScalar is one scalar item with a class label.
type CBORScalar struct {
	B     []byte
	Class string
}

func widthName(w int) string {
	return [...]string{"direct", "1byte", "2byte", "", "4byte", "", "", "", "8byte"}[w]
}

// CBORScalars enumerates every supported scalar item: integers in every width, floats, simple
// values, text and byte strings with every length width.
func CBORScalars() []CBORScalar {
	var out []CBORScalar
	for _, a := range CBORArgs {
		for _, w := range CBORWidths(a) {
			out = append(out, CBORScalar{CBORHead(0, a, w), "uint:" + widthName(w)})
			if a <= 1<<63-1 {
				top := "low"
				if w > 0 && a>>(uint(w)*8-1) != 0 {
					top = "topbit"
				}
				out = append(out, CBORScalar{CBORHead(1, a, w), "neg:" + widthName(w) + ":" + top})
			}
		}
	}
	for _, f := range Float32Bits {
		out = append(out, CBORScalar{CBORHead(7, uint64(f), 4), "float32"})
	}
	for _, f := range Float64Bits {
		out = append(out, CBORScalar{CBORHead(7, f, 8), "float64"})
	}
	for _, s := range []byte{20, 21, 22, 23} {
		out = append(out, CBORScalar{[]byte{7<<5 | s}, "simple"})
	}
	for _, l := range []int{0, 1, 2, 23, 24, 255, 256} {
		for _, w := range CBORWidths(uint64(l)) {
			if w == 8 && l > 2 {
				continue
			}
			txt := strings.Repeat("é", l/2) + strings.Repeat("a", l%2)
			out = append(out, CBORScalar{append(CBORHead(3, uint64(l), w), txt...), "text:" + widthName(w) + lenClass(l)})
			bs := make([]byte, l)
			for i := range bs {
				bs[i] = byte(i*7 + 1)
			}
			out = append(out, CBORScalar{append(CBORHead(2, uint64(l), w), bs...), "bytes:" + widthName(w) + lenClass(l)})
		}
	}
	return out
}

func lenClass(l int) string {
	if l == 0 {
		return ":empty"
	}
	return ""
}

// CBORUnsupported enumerates one item per unsupported feature.
func CBORUnsupported() []CBORScalar {
	var out []CBORScalar
	for _, t := range []uint64{0, 1, 23, 24, 255, 256, 55799, 1 << 32} {
		for _, w := range CBORWidths(t)[:1] {
			out = append(out, CBORScalar{append(CBORHead(6, t, w), 0x01), "tag"})
		}
	}
	out = append(out, CBORScalar{append(CBORHead(6, 2, 0), 0x41, 0x01), "tag"})
	out = append(out, CBORScalar{[]byte{0xF9, 0x3C, 0x00}, "half-float"}, CBORScalar{[]byte{0xF9, 0x00, 0x00}, "half-float"}, CBORScalar{[]byte{0xF9, 0x7E, 0x00}, "half-float"})
	out = append(out, CBORScalar{[]byte{0x7F, 0x61, 'a', 0xFF}, "indef-text"}, CBORScalar{[]byte{0x7F, 0xFF}, "indef-text"},
		CBORScalar{[]byte{0x5F, 0x41, 1, 0xFF}, "indef-bytes"}, CBORScalar{[]byte{0x5F, 0xFF}, "indef-bytes"})
	for _, a := range []uint64{1 << 63, 1<<63 + 1, 1<<64 - 1} {
		out = append(out, CBORScalar{CBORHead(1, a, 8), "neg-below-minint64"})
	}
	for _, s := range []uint64{0, 19, 32, 255} {
		w := 0
		if s >= 24 {
			w = 1
		}
		out = append(out, CBORScalar{CBORHead(7, s, w), "simple-other"})
	}
	return out
}

// CBORNonTextKeys: keys of every other major type.
func CBORNonTextKeys() []CBORScalar {
	return []CBORScalar{
		{[]byte{0x01}, "key-uint"}, {[]byte{0x20}, "key-neg"}, {[]byte{0x41, 'a'}, "key-bytes"}, {[]byte{0x80}, "key-array"},
		{[]byte{0xA0}, "key-map"}, {[]byte{0xF5}, "key-simple"}, {[]byte{0xFA, 0, 0, 0, 0}, "key-float"}, {[]byte{0xC0, 0x61, 'a'}, "key-tag"},
	}
}

// CBORContexts wraps an item: 0 top level, 1 definite array element, 2 indefinite array element,
// 3 definite map value, 4 indefinite map value, 5 element after a nested indefinite array.
const NumCBORContexts = 6

func CBORContext(ctx int, item []byte) []byte {
	// (ordered so that a scope of the first three contexts has: top level, a map value followed by a key, an element of an indefinite array)
	switch []int{0, 3, 2, 1, 4, 5}[ctx] {
	case 0:
		return item
	case 1:
		return cat([]byte{0x83, 0x07}, item, []byte{0x07})
	case 2:
		return cat([]byte{0x9F, 0x07}, item, []byte{0x07, 0xFF})
	case 3:
		return cat([]byte{0xA2, 0x61, 'k'}, item, []byte{0x61, 'z', 0x07})
	case 4:
		return cat([]byte{0xBF, 0x61, 'k', 0x07, 0x61, 'z'}, item, []byte{0xFF})
	default:
		return cat([]byte{0x82, 0x9F, 0xFF}, item)
	}
}

func cat(bs ...[]byte) []byte {
	var out []byte
	for _, b := range bs {
		out = append(out, b...)
	}
	return out
}

// CBORTree enumerates every item with at most maxNodes data items: containers in definite
// (direct and non-minimal 1-byte length) and indefinite form, maps with text keys incl. "".
func CBORTree(x *engine.Exec, maxNodes int) []byte {
	budget := maxNodes
	return cborTree(x, &budget, 0)
}

var cborLeaves = [][]byte{{0x01}, {0x38, 0x18}, {0x61, 'a'}, {0x60}, {0xF5}, {0x42, 1, 2}, {0x19, 0x01, 0x00}, {0xFA, 0x3F, 0x00, 0x00, 0x00}}
var cborKeys = [][]byte{{0x61, 'a'}, {0x60}, {0x78, 0x02, 'b', 'b'}}

// NumCBORLeaves is the size of the leaf alphabet used at a tier.
func cborTree(x *engine.Exec, budget *int, depth int) []byte {
	*budget--
	nl := len(cborLeaves)
	k := x.Choose(nl + 6)
	if k < nl {
		return cborLeaves[k]
	}
	k -= nl
	isMap := k >= 3
	form := k % 3 // 0 direct length, 1 one-byte length, 2 indefinite
	var body []byte
	n := 0
	for *budget > 0 && x.Choose(2) == 1 {
		if isMap {
			body = append(body, cborKeys[x.Choose(len(cborKeys))]...)
		}
		body = append(body, cborTree(x, budget, depth+1)...)
		n++
	}
	major := byte(4)
	if isMap {
		major = 5
	}
	switch form {
	case 0:
		return cat(CBORHead(major, uint64(n), 0), body)
	case 1:
		return cat(CBORHead(major, uint64(n), 1), body)
	default:
		return cat([]byte{major<<5 | 31}, body, []byte{0xFF})
	}
}

// CBORTreeRootArity is the arity of the root choice of CBORTree.
func CBORTreeRootArity() int { return len(cborLeaves) + 6 }
