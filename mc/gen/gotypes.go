package gen

import (
	"fmt"
	"math"
	"reflect"
	"strings"
	"sync"
)

// FieldType is one element of the field-type alphabet.
type FieldType struct {
	Name string
	T    reflect.Type
}

var (
	tIfc    = reflect.TypeOf((*interface{})(nil)).Elem()
	tString = reflect.TypeOf("")
)

// Inner is the nested struct type used inside generated structs (built at run time, like everything else).
var Inner = reflect.StructOf([]reflect.StructField{
	{Name: "X", Type: reflect.TypeOf(int(0))},
	{Name: "S", Type: tString, Tag: `struct:"s,omitempty"`},
})

// ScalarTypes are the base scalar field types.
var ScalarTypes = []FieldType{
	{"int", reflect.TypeOf(int(0))}, {"string", tString}, {"bool", reflect.TypeOf(false)}, {"float64", reflect.TypeOf(float64(0))},
	{"uint8", reflect.TypeOf(uint8(0))}, {"int8", reflect.TypeOf(int8(0))}, {"uint64", reflect.TypeOf(uint64(0))}, {"int64", reflect.TypeOf(int64(0))},
	{"float32", reflect.TypeOf(float32(0))}, {"int16", reflect.TypeOf(int16(0))}, {"int32", reflect.TypeOf(int32(0))},
	{"uint16", reflect.TypeOf(uint16(0))}, {"uint32", reflect.TypeOf(uint32(0))}, {"uint", reflect.TypeOf(uint(0))},
}

// FieldTypes returns the field-type alphabet: scalars, interface{}, and []T, map[string]T, *T,
// **T, [2]T over a scalar subset, the nested struct and containers of it.
func FieldTypes(level int) []FieldType {
	out := append([]FieldType{}, ScalarTypes[:4]...)
	out = append(out, FieldType{"interface{}", tIfc})
	comp := func(base FieldType) {
		out = append(out,
			FieldType{"[]" + base.Name, reflect.SliceOf(base.T)},
			FieldType{"map[string]" + base.Name, reflect.MapOf(tString, base.T)},
			FieldType{"*" + base.Name, reflect.PtrTo(base.T)})
	}
	comp(ScalarTypes[0])
	comp(ScalarTypes[1])
	out = append(out, FieldType{"Inner", Inner}, FieldType{"*Inner", reflect.PtrTo(Inner)}, FieldType{"[]Inner", reflect.SliceOf(Inner)},
		FieldType{"map[string]Inner", reflect.MapOf(tString, Inner)}, FieldType{"[]interface{}", reflect.SliceOf(tIfc)},
		FieldType{"map[string]interface{}", reflect.MapOf(tString, tIfc)})
	if level >= 1 {
		out = append(out, ScalarTypes[4:]...)
		out = append(out, FieldType{"**string", reflect.PtrTo(reflect.PtrTo(tString))}, FieldType{"***int", reflect.PtrTo(reflect.PtrTo(reflect.PtrTo(ScalarTypes[0].T)))},
			FieldType{"[2]int", reflect.ArrayOf(2, ScalarTypes[0].T)}, FieldType{"[]uint8", reflect.SliceOf(ScalarTypes[4].T)}, FieldType{"[]float64", reflect.SliceOf(ScalarTypes[3].T)},
			FieldType{"map[string]uint64", reflect.MapOf(tString, ScalarTypes[6].T)}, FieldType{"*interface{}", reflect.PtrTo(tIfc)}, FieldType{"[][]int", reflect.SliceOf(reflect.SliceOf(ScalarTypes[0].T))},
			FieldType{"*[]string", reflect.PtrTo(reflect.SliceOf(tString))}, FieldType{"map[string][]int", reflect.MapOf(tString, reflect.SliceOf(ScalarTypes[0].T))},
			FieldType{"map[string]*Inner", reflect.MapOf(tString, reflect.PtrTo(Inner))}, FieldType{"[]bool", reflect.SliceOf(ScalarTypes[2].T)})
		out = append(out, SeedFieldTypes()...)
	}
	return out
}

// TagOptions is the tag alphabet (the tag key is "struct").
var TagOptions = []string{"", "name", "-", ",omit", ",omitempty", ",inline", ",squash", "name,omitempty"}

// StructSpec describes a generated struct type.
type StructSpec struct {
	Fields []FieldType
	Tags   []string
}

func (s StructSpec) String() string {
	var sb strings.Builder
	sb.WriteString("struct{")
	for i, f := range s.Fields {
		if i > 0 {
			sb.WriteString("; ")
		}
		fmt.Fprintf(&sb, "%c %s", 'A'+i, f.Name)
		if s.Tags[i] != "" {
			fmt.Fprintf(&sb, " `struct:%q`", s.Tags[i])
		}
	}
	sb.WriteString("}")
	return sb.String()
}

var (
	typeCacheMu sync.Mutex
	typeCache   = map[string]reflect.Type{}
)

// Build constructs the type with reflect.StructOf (cached per descriptor).
func (s StructSpec) Build() reflect.Type {
	key := s.String()
	typeCacheMu.Lock()
	defer typeCacheMu.Unlock()
	if t, ok := typeCache[key]; ok {
		return t
	}
	var fs []reflect.StructField
	for i, f := range s.Fields {
		sf := reflect.StructField{Name: string(rune('A' + i)), Type: f.T}
		if s.Tags[i] != "" {
			sf.Tag = reflect.StructTag(fmt.Sprintf(`struct:%q`, s.Tags[i]))
		}
		fs = append(fs, sf)
	}
	t := reflect.StructOf(fs)
	typeCache[key] = t
	return t
}

// Values returns the value alphabet of a type: zero value first, then empty-but-non-nil and
// non-empty variants, one boundary value per numeric kind.
func Values(t reflect.Type, depth int) []reflect.Value {
	zero := reflect.Zero(t)
	out := []reflect.Value{zero}
	if depth > 6 {
		return out // self-referential container types (type M map[string]M)
	}
	add := func(v interface{}) { out = append(out, reflect.ValueOf(v).Convert(t)) }
	switch t.Kind() {
	case reflect.Bool:
		add(true)
	case reflect.String:
		add("s")
	case reflect.Int:
		add(-5)
		add(math.MaxInt64)
	case reflect.Int8:
		add(int8(-128))
	case reflect.Int16:
		add(int16(-32768))
	case reflect.Int32:
		add(int32(math.MinInt32))
	case reflect.Int64:
		add(int64(math.MinInt64))
	case reflect.Uint:
		add(uint(math.MaxUint64))
	case reflect.Uint8:
		add(uint8(200))
	case reflect.Uint16:
		add(uint16(65535))
	case reflect.Uint32:
		add(uint32(math.MaxUint32))
	case reflect.Uint64:
		add(uint64(math.MaxUint64))
		add(uint64(7))
	case reflect.Float32:
		add(float32(0.1))
	case reflect.Float64:
		add(float64(-2.5))
	case reflect.Interface:
		if t.NumMethod() != 0 {
			return out // only the nil value for non-empty interfaces
		}
		one := 1
		inner := reflect.New(Inner)
		inner.Elem().Field(0).SetInt(4)
		out = append(out, ifcValue(t, 3), ifcValue(t, "x"), ifcValue(t, ""), ifcValue(t, []interface{}{}), ifcValue(t, map[string]interface{}{"k": nil}),
			ifcValue(t, []int{1}),
			// further dynamic types: typed nil pointer, pointers, named type, widths, containers, array, nested interface data
			ifcValue(t, (*int)(nil)), ifcValue(t, &one), ifcValue(t, inner.Interface()), ifcValue(t, SeedMyInt(3)), ifcValue(t, uint64(math.MaxUint64)), ifcValue(t, float32(0.5)),
			ifcValue(t, true), ifcValue(t, map[string]int{"a": 1}), ifcValue(t, []string{}), ifcValue(t, [2]int{1, 2}), ifcValue(t, []interface{}{[]interface{}{nil}, map[string]interface{}{}}),
			ifcValue(t, map[string]interface{}(nil)), ifcValue(t, int8(-8)), ifcValue(t, SeedMyStr("named")),
			ifcValue(t, reflect.New(Inner).Elem().Interface()))
	case reflect.Ptr:
		if depth > 3 {
			return out
		}
		for i, ev := range Values(t.Elem(), depth+1) {
			if i >= 2 && t.Elem().Kind() != reflect.Ptr {
				break
			}
			p := reflect.New(t.Elem())
			p.Elem().Set(ev)
			out = append(out, p)
		}
	case reflect.Slice:
		out = append(out, reflect.MakeSlice(t, 0, 0))
		ev := Values(t.Elem(), depth+1)
		if k := t.Elem().Kind(); k == reflect.Ptr || k == reflect.Interface {
			// nil first
			sz := reflect.MakeSlice(t, 0, 2)
			sz = reflect.Append(sz, ev[0], ev[len(ev)-1])
			out = append(out, sz)
		}
		s := reflect.MakeSlice(t, 0, 2)
		s = reflect.Append(s, ev[len(ev)-1], ev[0])
		out = append(out, s)
	case reflect.Array:
		ev := Values(t.Elem(), depth+1)
		a := reflect.New(t).Elem()
		for i := 0; i < t.Len(); i++ {
			a.Index(i).Set(ev[(i+1)%len(ev)])
		}
		out = append(out, a)
	case reflect.Map:
		out = append(out, reflect.MakeMap(t))
		if t.Key().Kind() != reflect.String {
			return out
		}
		ev := Values(t.Elem(), depth+1)
		if k := t.Elem().Kind(); k == reflect.Ptr || k == reflect.Interface || k == reflect.Slice || k == reflect.Map {
			// a single entry holding the zero value of the element type (nil pointer / interface / slice / map): reported as null
			mz := reflect.MakeMap(t)
			mz.SetMapIndex(reflect.ValueOf("z").Convert(t.Key()), ev[0])
			out = append(out, mz)
		}
		m := reflect.MakeMap(t)
		m.SetMapIndex(reflect.ValueOf("k").Convert(t.Key()), ev[len(ev)-1])
		out = append(out, m)
	case reflect.Struct:
		if depth > 3 {
			return out
		}
		s := reflect.New(t).Elem()
		for i := 0; i < t.NumField(); i++ {
			if !s.Field(i).CanSet() {
				continue
			}
			fv := Values(t.Field(i).Type, depth+1)
			s.Field(i).Set(fv[len(fv)-1])
		}
		out = append(out, s)
	}
	return out
}

func ifcValue(t reflect.Type, v interface{}) reflect.Value {
	r := reflect.New(t).Elem()
	r.Set(reflect.ValueOf(v))
	return r
}
