package gen

import (
	"encoding/binary"
	"math"
	"strings"

	"verif/mc/engine"
)

// UBJLen encodes a length with the given integer marker.
func UBJLen(marker byte, l int) []byte {
	switch marker {
	case 'i', 'U':
		return []byte{marker, byte(l)}
	case 'I':
		b := []byte{marker, 0, 0}
		binary.BigEndian.PutUint16(b[1:], uint16(l))
		return b
	case 'l':
		b := []byte{marker, 0, 0, 0, 0}
		binary.BigEndian.PutUint32(b[1:], uint32(l))
		return b
	default:
		b := []byte{'L', 0, 0, 0, 0, 0, 0, 0, 0}
		binary.BigEndian.PutUint64(b[1:], uint64(l))
		return b
	}
}

// UBJLenMarkers lists the markers able to hold length l.
func UBJLenMarkers(l int) []byte {
	var m []byte
	if l <= math.MaxInt8 {
		m = append(m, 'i')
	}
	if l <= math.MaxUint8 {
		m = append(m, 'U')
	}
	if l <= math.MaxInt16 {
		m = append(m, 'I')
	}
	return append(m, 'l', 'L')
}

// UBJScalar is one scalar value with a class label.
type UBJScalar struct {
	B     []byte
	Class string
}

func be(n int, v uint64) []byte {
	b := make([]byte, 8)
	binary.BigEndian.PutUint64(b, v)
	return b[8-n:]
}

// UBJScalars enumerates every scalar marker with boundary payloads and every length-marker choice.
func UBJScalars() []UBJScalar {
	var out []UBJScalar
	out = append(out, UBJScalar{[]byte{'Z'}, "Z"}, UBJScalar{[]byte{'T'}, "T"}, UBJScalar{[]byte{'F'}, "F"})
	for _, v := range []int64{0, 1, -1, 127, -128} {
		out = append(out, UBJScalar{append([]byte{'i'}, be(1, uint64(v))...), "i"})
	}
	for _, v := range []uint64{0, 1, 127, 128, 255} {
		out = append(out, UBJScalar{append([]byte{'U'}, be(1, v)...), "U"})
	}
	for _, v := range []int64{0, 1, -1, 255, 256, -129, 32767, -32768} {
		out = append(out, UBJScalar{append([]byte{'I'}, be(2, uint64(v))...), "I"})
	}
	for _, v := range []int64{0, -1, 65535, 65536, -32769, math.MaxInt32, math.MinInt32} {
		out = append(out, UBJScalar{append([]byte{'l'}, be(4, uint64(v))...), "l"})
	}
	for _, v := range []int64{0, -1, 1 << 32, -1<<32 - 1, math.MaxInt64, math.MinInt64} {
		out = append(out, UBJScalar{append([]byte{'L'}, be(8, uint64(v))...), "L"})
	}
	for _, f := range Float32Bits {
		out = append(out, UBJScalar{append([]byte{'d'}, be(4, uint64(f))...), "d"})
	}
	for _, f := range Float64Bits {
		out = append(out, UBJScalar{append([]byte{'D'}, be(8, f)...), "D"})
	}
	for _, c := range []byte{'a', 0, 0x7f, 'N', '[', ']'} { // (a char is an ASCII character: 0..127)
		out = append(out, UBJScalar{[]byte{'C', c}, "C"})
	}
	for _, h := range []string{"0", "18446744073709551615", "-1.5e+400", "3.14159265358979323846264338327950288419716939937510", ""} {
		for _, m := range UBJLenMarkers(len(h)) {
			out = append(out, UBJScalar{cat([]byte{'H'}, UBJLen(m, len(h)), []byte(h)), "H:len-" + string(m)})
		}
	}
	for _, l := range []int{0, 1, 2, 127, 128, 255, 256} {
		s := strings.Repeat("é", l/2) + strings.Repeat("a", l%2)
		for _, m := range UBJLenMarkers(l) {
			cl := "S:len-" + string(m)
			if l == 0 {
				cl += ":empty"
			}
			out = append(out, UBJScalar{cat([]byte{'S'}, UBJLen(m, l), []byte(s)), cl})
		}
	}
	return out
}

// UBJContexts wraps a value: 0 top, 1 plain array, 2 counted array, 3 plain object value,
// 4 counted object value, 5 no-ops around it at top level, 6 last element of a plain array with no-ops.
const NumUBJContexts = 7

func UBJContext(ctx int, v []byte) []byte {
	seven := []byte{'i', 7}
	// (ordered so that a scope of the first three contexts has: top level, an object value followed by a member, an array element)
	switch []int{0, 3, 1, 2, 4, 5, 6}[ctx] {
	case 0:
		return v
	case 1:
		return cat([]byte{'['}, seven, v, seven, []byte{']'})
	case 2:
		return cat([]byte{'[', '#', 'i', 3}, seven, v, seven)
	case 3:
		return cat([]byte{'{', 'i', 1, 'k'}, v, []byte{'i', 1, 'z'}, seven, []byte{'}'})
	case 4:
		return cat([]byte{'{', '#', 'U', 2, 'i', 1, 'k'}, seven, []byte{'i', 1, 'z'}, v)
	case 5:
		return cat([]byte{'N', 'N'}, v, []byte{'N'})
	default:
		return cat([]byte{'[', 'N'}, seven, []byte{'N'}, v, []byte{'N', ']'})
	}
}

var ubjLeaves = [][]byte{{'i', 1}, {'S', 'i', 1, 'a'}, {'Z'}, {'T'}, {'U', 200}, {'C', 'x'}, {'S', 'U', 0}, {'I', 1, 0}}
var ubjKeys = [][]byte{{'i', 1, 'a'}, {'i', 0}, {'U', 2, 'b', 'b'}}

// element types for typed containers and two payloads each ('[' and '{' recurse)
var ubjTypes = []byte{'i', 'S', 'Z', 'T', 'U', 'd', '[', '{', 'C', 'H', 'I', 'F', 'l', 'L', 'D'}

// the third payload of every type starts with the byte 0x4E ('N', the no-op marker): payloads of typed
// containers carry no markers, so no payload byte may ever be taken for one
var ubjPayload = map[byte][][]byte{
	'i': {{1}, {0x80}, {'N'}}, 'S': {{'i', 1, 'a'}, {'U', 0}, {'U', 1, 'N'}}, 'Z': {{}}, 'T': {{}}, 'F': {{}}, 'U': {{200}, {0}, {'N'}},
	'd': {{0x3f, 0, 0, 0}, {0xff, 0xc0, 0, 0}, {'N', 0, 0, 0}}, 'C': {{'x'}, {']'}, {'N'}}, 'H': {{'i', 2, '1', '2'}, {'i', 0}, {'U', 1, '7'}},
	'I': {{1, 0}, {0xff, 0xff}, {'N', ' '}}, 'l': {{0, 1, 0, 0}, {0x80, 0, 0, 0}, {'N', 0, 0, 1}}, 'L': {{0, 0, 0, 1, 0, 0, 0, 0}, {0x80, 0, 0, 0, 0, 0, 0, 0}, {'N', 0, 0, 0, 0, 0, 0, 2}},
	'D': {{0x3f, 0xe0, 0, 0, 0, 0, 0, 0}, {0, 0, 0, 0, 0, 0, 0, 1}, {'N', 0, 0, 0, 0, 0, 0, 0}},
}

// UBJTree enumerates every UBJSON value with at most maxNodes nodes: plain, counted and typed
// containers (typed ones over every element type, including containers of containers), no-ops in
// plain containers.
func UBJTree(x *engine.Exec, maxNodes, nTypes int) []byte {
	budget := maxNodes
	return ubjTree(x, &budget, nTypes, 0)
}

// UBJTreeRootArity is the arity of the root choice.
func UBJTreeRootArity() int { return len(ubjLeaves) + 6 }

func ubjTree(x *engine.Exec, budget *int, nTypes int, force byte) []byte {
	*budget--
	nl := len(ubjLeaves)
	var k int
	if force == 0 {
		k = x.Choose(nl + 6)
		if k < nl {
			return ubjLeaves[k]
		}
		k -= nl
	} else {
		k = x.Choose(3) * 2 // plain, counted, typed
		if force == '{' {
			k++
		}
	}
	isObj := k%2 == 1
	form := k / 2 // 0 plain, 1 counted, 2 typed
	open, end := byte('['), byte(']')
	if isObj {
		open, end = '{', '}'
	}
	var typ byte
	if form == 2 {
		typ = ubjTypes[x.Choose(nTypes)]
	}
	var body []byte
	n := 0
	for *budget > 0 && x.Choose(2) == 1 {
		if isObj {
			body = append(body, ubjKeys[x.Choose(len(ubjKeys))]...)
		}
		switch {
		case typ == '[' || typ == '{':
			body = append(body, ubjTree(x, budget, nTypes, typ)[1:]...)
		case typ != 0:
			*budget--
			p := ubjPayload[typ]
			body = append(body, p[x.Choose(len(p))]...)
		default:
			body = append(body, ubjTree(x, budget, nTypes, 0)...)
		}
		n++
	}
	lenm := byte('i')
	switch form {
	case 0:
		if !isObj { // no-op placement in plain arrays (inside objects the draft is unclear: not generated)
			switch x.Choose(3) {
			case 1:
				body = append([]byte{'N'}, body...)
			case 2:
				body = append(body, 'N')
			}
		}
		return cat([]byte{open}, body, []byte{end})
	case 1:
		return cat([]byte{open, '#'}, UBJLen(lenm, n), body)
	default:
		return cat([]byte{open, '$', typ, '#'}, UBJLen(lenm, n), body)
	}
}
