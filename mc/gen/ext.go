package gen

import (
	"math"

	"verif/mc/model"
)

func pick[T any](all []T, idx ...int) []T {
	out := make([]T, 0, len(idx))
	for _, i := range idx {
		out = append(out, all[i%len(all)])
	}
	return out
}

// contents(all): nil, empty, each single boundary element (deep) or the first and last (shallow), pairs.
func contents[T any](all []T, deep bool) [][]T {
	out := [][]T{nil, {}}
	if deep {
		for i := range all {
			out = append(out, []T{all[i]})
		}
		for i := range all {
			out = append(out, []T{all[i], all[(i+1)%len(all)]})
			out = append(out, []T{all[0], all[i], all[len(all)-1]})
		}
	} else {
		out = append(out, []T{all[0]}, []T{all[len(all)-1]}, []T{all[0], all[len(all)-1]}, []T{all[len(all)-1], all[0], all[len(all)/2]})
	}
	return out
}

var (
	valsBool = []bool{true, false}
	valsStr  = []string{"a", "", "é\"\\", "\xff<", "kkkkkkkkkkkkkkkkkkkkkkkkk"}
	valsI8   = []int8{1, 0, -1, 127, -128, 24, -25}
	valsI16  = []int16{1, 0, -1, 127, 128, -128, -129, 255, 256, -256, -257, 32767, -32768}
	valsI32  = []int32{1, 0, -1, 32767, 32768, -32768, -32769, 65535, 65536, -65537, math.MaxInt32, math.MinInt32}
	valsI64  = []int64{1, 0, -1, 255, 65536, math.MaxInt32, math.MaxInt32 + 1, math.MinInt32, math.MinInt32 - 1, 1 << 32, -1<<32 - 1, math.MaxInt64, math.MinInt64}
	valsInt  = []int{1, 0, -1, 255, 65536, math.MaxInt32 + 1, math.MinInt32 - 1, math.MaxInt64, math.MinInt64}
	valsU8   = []uint8{1, 0, 23, 24, 127, 128, 255}
	valsU16  = []uint16{1, 0, 127, 128, 255, 256, 32767, 32768, 65535}
	valsU32  = []uint32{1, 0, 255, 256, 32767, 32768, 65535, 65536, 1<<31 - 1, 1 << 31, math.MaxUint32}
	valsU64  = []uint64{1, 0, 255, 65536, 1<<31 - 1, 1 << 31, 1 << 32, 1<<63 - 1, 1 << 63, math.MaxUint64}
	valsUint = []uint{1, 0, 255, 65536, 1 << 31, 1 << 32, 1<<63 - 1, 1 << 63, math.MaxUint64}
	valsF32  = []float32{1, 0, -0.5, 3.14, math.MaxFloat32, math.SmallestNonzeroFloat32, 16777216, 1e21}
	valsF64  = []float64{1, 0, -0.5, 3.14, math.MaxFloat64, math.SmallestNonzeroFloat64, 1 << 53, 1e21, 1e-7}
)

func arrEvents[T any](k model.Kind, all []T, deep bool) []model.Event {
	var out []model.Event
	for _, c := range contents(all, deep) {
		out = append(out, model.Ext(k, c))
	}
	return out
}

func objEvents[T any](k model.Kind, all []T, deep bool) []model.Event {
	keys := []string{"a", "b", "", "é", "kkkkkkkkkkkkkkkkkkkkkkkkk"}
	var out []model.Event
	out = append(out, model.Ext(k, map[string]T(nil)), model.Ext(k, map[string]T{}))
	n := 2
	if deep {
		n = len(all)
	}
	for i := 0; i < n; i++ {
		v := all[i*(len(all)-1)/max(n-1, 1)]
		out = append(out, model.Ext(k, map[string]T{keys[i%len(keys)]: v}))
	}
	// two members (map iteration order is not owned: oracles compare map-derived objects unordered)
	out = append(out, model.Ext(k, map[string]T{"a": all[0], "b": all[len(all)-1]}))
	if deep {
		for i := range all {
			out = append(out, model.Ext(k, map[string]T{"a": all[i], "": all[(i+1)%len(all)]}))
		}
	}
	return out
}

// ExtArrayEvents returns the 15 typed array events with their content alphabet.
func ExtArrayEvents(deep bool) []model.Event {
	var out []model.Event
	out = append(out, arrEvents(model.KBoolArray, valsBool, deep)...)
	out = append(out, arrEvents(model.KStringArray, valsStr, deep)...)
	out = append(out, arrEvents(model.KInt8Array, valsI8, deep)...)
	out = append(out, arrEvents(model.KInt16Array, valsI16, deep)...)
	out = append(out, arrEvents(model.KInt32Array, valsI32, deep)...)
	out = append(out, arrEvents(model.KInt64Array, valsI64, deep)...)
	out = append(out, arrEvents(model.KIntArray, valsInt, deep)...)
	out = append(out, arrEvents(model.KBytes, valsU8, deep)...)
	out = append(out, arrEvents(model.KUint8Array, valsU8, deep)...)
	out = append(out, arrEvents(model.KUint16Array, valsU16, deep)...)
	out = append(out, arrEvents(model.KUint32Array, valsU32, deep)...)
	out = append(out, arrEvents(model.KUint64Array, valsU64, deep)...)
	out = append(out, arrEvents(model.KUintArray, valsUint, deep)...)
	out = append(out, arrEvents(model.KFloat32Array, valsF32, deep)...)
	out = append(out, arrEvents(model.KFloat64Array, valsF64, deep)...)
	return out
}

// ExtObjectEvents returns the 14 typed map events with their content alphabet.
func ExtObjectEvents(deep bool) []model.Event {
	var out []model.Event
	out = append(out, objEvents(model.KBoolObject, valsBool, deep)...)
	out = append(out, objEvents(model.KStringObject, valsStr, deep)...)
	out = append(out, objEvents(model.KInt8Object, valsI8, deep)...)
	out = append(out, objEvents(model.KInt16Object, valsI16, deep)...)
	out = append(out, objEvents(model.KInt32Object, valsI32, deep)...)
	out = append(out, objEvents(model.KInt64Object, valsI64, deep)...)
	out = append(out, objEvents(model.KIntObject, valsInt, deep)...)
	out = append(out, objEvents(model.KUint8Object, valsU8, deep)...)
	out = append(out, objEvents(model.KUint16Object, valsU16, deep)...)
	out = append(out, objEvents(model.KUint32Object, valsU32, deep)...)
	out = append(out, objEvents(model.KUint64Object, valsU64, deep)...)
	out = append(out, objEvents(model.KUintObject, valsUint, deep)...)
	out = append(out, objEvents(model.KFloat32Object, valsF32, deep)...)
	out = append(out, objEvents(model.KFloat64Object, valsF64, deep)...)
	return out
}

// ExtEvents returns all extended events.
func ExtEvents(deep bool) []model.Event {
	return append(ExtArrayEvents(deep), ExtObjectEvents(deep)...)
}

// boundaryInts is the union of the width boundaries of all integer encodings of the three formats.
var boundaryInts = []float64{0, 1, -1, 23, 24, 127, 128, 200, 255, 256, -128, -129, 32767, 32768, 40000, -32768, -32769, 65535, 65536,
	1<<31 - 1, 1 << 31, 3e9, -(1 << 31), -(1 << 31) - 1, 1<<32 - 1, 1 << 32, 1 << 53}

func intBoundaries[T int | int8 | int16 | int32 | int64 | uint | uint8 | uint16 | uint32 | uint64](extra ...T) []T {
	var out []T
	for _, f := range boundaryInts {
		v := T(f)
		if float64(v) == f { // fits the type
			out = append(out, v)
		}
	}
	return append(out, extra...)
}

func pairEvents[T any](k model.Kind, vals []T) []model.Event {
	var out []model.Event
	for _, a := range vals {
		for _, b := range vals {
			out = append(out, model.Ext(k, []T{a, b}))
		}
	}
	return out
}

// ExtPairEvents returns, for every integer array kind, the arrays [a, b] for ALL ordered pairs of width-boundary values
// of its element type (encoders that choose one element width for the whole array must look at every element).
func ExtPairEvents() []model.Event {
	var out []model.Event
	out = append(out, pairEvents(model.KInt8Array, intBoundaries[int8]())...)
	out = append(out, pairEvents(model.KInt16Array, intBoundaries[int16]())...)
	out = append(out, pairEvents(model.KInt32Array, intBoundaries[int32]())...)
	out = append(out, pairEvents(model.KInt64Array, intBoundaries[int64](math.MaxInt64, math.MinInt64))...)
	out = append(out, pairEvents(model.KIntArray, intBoundaries[int](math.MaxInt64, math.MinInt64))...)
	out = append(out, pairEvents(model.KUint8Array, intBoundaries[uint8]())...)
	out = append(out, pairEvents(model.KUint16Array, intBoundaries[uint16]())...)
	out = append(out, pairEvents(model.KUint32Array, intBoundaries[uint32]())...)
	out = append(out, pairEvents(model.KUint64Array, intBoundaries[uint64](1<<63-1, 1<<63, math.MaxUint64))...)
	out = append(out, pairEvents(model.KUintArray, intBoundaries[uint](1<<63-1, 1<<63, math.MaxUint64))...)
	return out
}

func sizedArr[T any](k model.Kind, n int, f func(i int) T) model.Event {
	s := make([]T, n)
	for i := range s {
		s[i] = f(i)
	}
	return model.Ext(k, s)
}

func sizedObj[T any](k model.Kind, n int, f func(i int) T) model.Event {
	m := make(map[string]T, n)
	for i := 0; i < n; i++ {
		m["k"+string(rune('a'+i%26))+string(rune('a'+i/26%26))] = f(i)
	}
	return model.Ext(k, m)
}

// ExtSizedEvents returns every typed array and typed map event with n elements.
func ExtSizedEvents(n int) []model.Event {
	return []model.Event{
		sizedArr(model.KBoolArray, n, func(i int) bool { return i%3 == 0 }), sizedArr(model.KStringArray, n, func(i int) string { return string(rune('a' + i%26)) }),
		sizedArr(model.KInt8Array, n, func(i int) int8 { return int8(i) }), sizedArr(model.KInt16Array, n, func(i int) int16 { return int16(i * 100) }),
		sizedArr(model.KInt32Array, n, func(i int) int32 { return int32(i) * 70000 }), sizedArr(model.KInt64Array, n, func(i int) int64 { return int64(i) << 33 }),
		sizedArr(model.KIntArray, n, func(i int) int { return -i }), sizedArr(model.KBytes, n, func(i int) byte { return byte(i) }),
		sizedArr(model.KUint8Array, n, func(i int) uint8 { return uint8(i) }), sizedArr(model.KUint16Array, n, func(i int) uint16 { return uint16(i * 200) }),
		sizedArr(model.KUint32Array, n, func(i int) uint32 { return uint32(i) * 70000 }), sizedArr(model.KUint64Array, n, func(i int) uint64 { return uint64(i) << 40 }),
		sizedArr(model.KUintArray, n, func(i int) uint { return uint(i) }), sizedArr(model.KFloat32Array, n, func(i int) float32 { return float32(i) / 2 }),
		sizedArr(model.KFloat64Array, n, func(i int) float64 { return float64(i) / 4 }),
		sizedObj(model.KBoolObject, n, func(i int) bool { return i%2 == 0 }), sizedObj(model.KStringObject, n, func(i int) string { return string(rune('a' + i%26)) }),
		sizedObj(model.KInt8Object, n, func(i int) int8 { return int8(i) }), sizedObj(model.KInt16Object, n, func(i int) int16 { return int16(i * 100) }),
		sizedObj(model.KInt32Object, n, func(i int) int32 { return int32(i) * 70000 }), sizedObj(model.KInt64Object, n, func(i int) int64 { return int64(i) << 33 }),
		sizedObj(model.KIntObject, n, func(i int) int { return -i }), sizedObj(model.KUint8Object, n, func(i int) uint8 { return uint8(i) }),
		sizedObj(model.KUint16Object, n, func(i int) uint16 { return uint16(i * 200) }), sizedObj(model.KUint32Object, n, func(i int) uint32 { return uint32(i) * 70000 }),
		sizedObj(model.KUint64Object, n, func(i int) uint64 { return uint64(i) << 40 }), sizedObj(model.KUintObject, n, func(i int) uint { return uint(i) }),
		sizedObj(model.KFloat32Object, n, func(i int) float32 { return float32(i) / 2 }), sizedObj(model.KFloat64Object, n, func(i int) float64 { return float64(i) / 4 }),
	}
}
