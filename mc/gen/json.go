package gen

import (
	"strings"
)

// JSONTokens is the 9-symbol structure alphabet.
var JSONTokens = []string{"{", "}", "[", "]", ",", ":", `"a"`, "1", "true"}

const bs = "\\"

// JSONStringAtoms: the pieces JSON string literals are concatenated from (inside the quotes).
var JSONStringAtoms = []string{
	"a", "é", "€", "\U0001F600", "\x7f",
	bs + `"`, bs + bs, bs + "/", bs + "b", bs + "f", bs + "n", bs + "r", bs + "t",
	bs + "u0041", bs + "u00e9", bs + "u0000",
	bs + "ud83d" + bs + "ude00", bs + "uD83D" + bs + "uDE00",
	bs + "ud800", bs + "udc00", bs + "ud800" + bs + "u0041",
}

// JSONStringBodies returns all concatenations of at most n atoms.
func JSONStringBodies(n int) []string {
	out := []string{""}
	level := []string{""}
	for i := 0; i < n; i++ {
		var next []string
		for _, p := range level {
			for _, a := range JSONStringAtoms {
				next = append(next, p+a)
			}
		}
		out = append(out, next...)
		level = next
	}
	return out
}

// JSONNumbers returns the number literal alphabet (all valid per RFC 8259).
func JSONNumbers() []string {
	ints := []string{"0", "1", "9", "10", "4294967295", "4294967296", "9223372036854775807", "9223372036854775808",
		"18446744073709551615", "18446744073709551616", "1000000000000000000000000000000", "123456789012345678"}
	fracs := []string{"", ".0", ".5", ".00000000000000000001", ".99999999999999999999", ".125"}
	exps := []string{"", "e0", "E+1", "e-1", "e22", "e23", "e308", "e309", "e-324", "e-400", "E2"}
	var out []string
	for _, sign := range []string{"", "-"} {
		for _, i := range ints {
			for _, f := range fracs {
				for _, e := range exps {
					out = append(out, sign+i+f+e)
				}
			}
		}
	}
	return out
}

// JSONNumberContexts: how a number is terminated.
var JSONNumberContexts = [][2]string{
	// (ordered so that a scope of the first three contexts has: end of input, a following object member, a following element)
	{"", ""}, {`{"a":`, `,"b":2}`}, {"[", ",1]"}, {"[", "]"}, {`{"a":`, "}"}, {"", " "}, {" ", "\n"}, {"[", " ]"}, {"[0,", "\t]"}, {"[[", "]]"},
}

// JSONDocs are representative documents for the whitespace sweep; tokens are separated by \x00.
var JSONDocs = []string{
	"[\x001\x00,\x00\"a\"\x00,\x00true\x00]",
	"{\x00\"a\"\x00:\x00[\x00]\x00,\x00\"b\"\x00:\x00{\x00}\x00}",
	"null", "\"x\"", "-1.5e3", "false",
	"[\x00[\x00]\x00,\x00{\x00\"k\"\x00:\x00null\x00}\x00]",
	"{\x00\"a\"\x00:\x001\x00}",
	"[\x00-0\x00,\x000.5\x00]",
	"[\x00true\x00,\x00false\x00,\x00null\x00]",
}

// JSONWhitespace: all whitespace strings of at most 2 characters.
func JSONWhitespace() []string {
	ws := []string{" ", "\t", "\n", "\r"}
	out := []string{""}
	out = append(out, ws...)
	for _, a := range ws {
		for _, b := range ws {
			out = append(out, a+b)
		}
	}
	return out
}

// JSONWithWS inserts w at token boundary i of doc (boundaries: before first, between tokens, after last).
func JSONWithWS(doc string, i int, w string) (string, bool) {
	toks := strings.Split(doc, "\x00")
	if i > len(toks) {
		return "", false
	}
	var sb strings.Builder
	for j, t := range toks {
		if j == i {
			sb.WriteString(w)
		}
		sb.WriteString(t)
	}
	if i == len(toks) {
		sb.WriteString(w)
	}
	return sb.String(), true
}

// JSONNest returns a document nested n deep (arrays and objects alternating).
func JSONNest(n int) string {
	var a, b strings.Builder
	for i := 0; i < n; i++ {
		if i%2 == 0 {
			a.WriteString("[")
		} else {
			a.WriteString(`{"k":`)
		}
	}
	for i := n - 1; i >= 0; i-- {
		if i%2 == 0 {
			b.WriteString("]")
		} else {
			b.WriteString("}")
		}
	}
	return a.String() + "1" + b.String()
}
