package gen

import (
	structform "github.com/elastic/go-structform"

	"verif/mc/engine"
	"verif/mc/model"
)

// Node is a well-formed value tree; Events() serialises it into a well-formed event stream.
type Node struct {
	Leaf  *model.Event // scalar or extended event
	Obj   bool
	Known bool // announce the length (otherwise -1)
	BT    structform.BaseType
	Keys  []string
	Kids  []*Node
}

// Events appends the event stream of the tree.
func (n *Node) Events(out []model.Event) []model.Event {
	if n.Leaf != nil {
		return append(out, *n.Leaf)
	}
	l := -1
	if n.Known {
		l = len(n.Kids)
	}
	if n.Obj {
		out = append(out, model.ObjStart(l, n.BT))
		for i, k := range n.Kids {
			out = append(out, model.Key(n.Keys[i]))
			out = k.Events(out)
		}
		return append(out, model.ObjEnd())
	}
	out = append(out, model.ArrStart(l, n.BT))
	for _, k := range n.Kids {
		out = k.Events(out)
	}
	return append(out, model.ArrEnd())
}

// Size is the number of nodes.
func (n *Node) Size() int {
	s := 1
	for _, k := range n.Kids {
		s += k.Size()
	}
	return s
}

// HasContainer tells whether the tree is more than a scalar.
func (n *Node) HasContainer() bool { return n.Leaf == nil }

// TreeOpts bounds the tree enumeration.
type TreeOpts struct {
	MaxNodes int
	MaxDepth int
	Leaves   []model.Event
	Keys     []string
	NoKnown  bool // only unknown lengths
	NoObj    bool
}

// Tree enumerates every ordered tree with at most MaxNodes nodes.
func Tree(x *engine.Exec, o *TreeOpts) *Node {
	budget := o.MaxNodes
	return tree(x, o, &budget, 0)
}

func tree(x *engine.Exec, o *TreeOpts, budget *int, depth int) *Node {
	*budget--
	nl := len(o.Leaves)
	nc := 4
	if o.NoKnown {
		nc = 2
	}
	if o.NoObj {
		nc /= 2
	}
	if o.MaxDepth > 0 && depth >= o.MaxDepth {
		nc = 0
	}
	k := x.Choose(nl + nc)
	if k < nl {
		ev := o.Leaves[k]
		return &Node{Leaf: &ev}
	}
	k -= nl
	n := &Node{}
	if o.NoKnown {
		n.Obj = k == 1
	} else {
		n.Known = k&1 == 1
		n.Obj = k >= 2
	}
	for *budget > 0 && x.Choose(2) == 1 {
		if n.Obj {
			n.Keys = append(n.Keys, o.Keys[x.Choose(len(o.Keys))])
		}
		n.Kids = append(n.Kids, tree(x, o, budget, depth+1))
	}
	return n
}

// Context wraps a leaf event into one of the standard positions.
// 0: top level; 1/2: first/last element of an unknown-length array of three;
// 3/4: first/last element of a known-length array; 5: object value; 6: object value with announced length.
const NumContexts = 7

func Context(ctx int, ev model.Event) []model.Event {
	f := model.SInt(model.KInt8, 7)
	switch ctx {
	case 0:
		return []model.Event{ev}
	case 1:
		return []model.Event{model.ArrStart(-1, structform.AnyType), ev, f, f, model.ArrEnd()}
	case 2:
		return []model.Event{model.ArrStart(-1, structform.AnyType), f, f, ev, model.ArrEnd()}
	case 3:
		return []model.Event{model.ArrStart(3, structform.AnyType), ev, f, f, model.ArrEnd()}
	case 4:
		return []model.Event{model.ArrStart(3, structform.AnyType), f, f, ev, model.ArrEnd()}
	case 5:
		return []model.Event{model.ObjStart(-1, structform.AnyType), model.Key("k"), ev, model.Key("z"), f, model.ObjEnd()}
	default:
		return []model.Event{model.ObjStart(2, structform.AnyType), model.Key("k"), f, model.Key("z"), ev, model.ObjEnd()}
	}
}
