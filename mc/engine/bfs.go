package engine

import (
	"fmt"
	"strings"
)

// BFSModel describes an explicit-state search over the histories of one long-lived instance.
// Live objects cannot be cloned: a state *is* the history that reaches it, and every successor
// is obtained by replaying the history on a fresh real instance plus one operation.
type BFSModel struct {
	Name   string
	NumOps int
	OpName func(op int) string
	// Run builds a fresh instance, replays history, applies op (op < 0: nothing) and returns
	// the observable output of op, the fingerprint of the idle-relevant private state and the
	// full fingerprint (used for state matching). bad != "" reports a crash/hang.
	Run func(history []int, op int) (out, idle, full, bad string)
}

// BFSOpts bounds the search.
type BFSOpts struct {
	UnprunedDepth int // histories up to this depth are explored without state matching
	MaxDepth      int // maximal history length (including the probe operation)
	// Part/Parts split the search over several executions (run in parallel by the driver): this execution explores the
	// histories whose first operation op satisfies op % Parts == Part (Parts == 0: everything). States are matched per part.
	Part, Parts int
}

// BFS explores the model breadth first and reports violations through x.
// Oracle on every transition (h, op): the output of op equals its output on a fresh instance,
// and the idle fingerprint after op equals the fresh instance's.
func BFS(x *Exec, m *BFSModel, o BFSOpts) {
	_, idle0, full0, bad := m.Run(nil, -1)
	if bad != "" {
		Fail("%s: fresh instance: %s", m.Name, bad)
	}
	out0 := make([]string, m.NumOps)
	for op := 0; op < m.NumOps; op++ {
		out, _, _, bad := m.Run(nil, op)
		if bad != "" {
			x.Violation(m.Name, "crash-on-fresh", "op:"+m.OpName(op), bad, map[string]interface{}{"component": m.Name, "op": m.OpName(op)})
		}
		out0[op] = out
	}
	seen := map[string]bool{full0: true}
	type node struct{ h []int }
	frontier := []node{{nil}}
	states, transitions, maxDepth, pruned := int64(1), int64(0), 0, int64(0)
	fixpoint := true
	hist := func(h []int) []string {
		var s []string
		for _, op := range h {
			s = append(s, m.OpName(op))
		}
		return s
	}
	for len(frontier) > 0 {
		n := frontier[0]
		frontier = frontier[1:]
		if len(n.h) >= o.MaxDepth {
			fixpoint = false
			continue
		}
		for op := 0; op < m.NumOps; op++ {
			if len(n.h) == 0 && o.Parts > 0 && op%o.Parts != o.Part {
				continue
			}
			out, idle, full, bad := m.Run(n.h, op)
			transitions++
			d := len(n.h) + 1
			if d > maxDepth {
				maxDepth = d
			}
			last := "fresh"
			if len(n.h) > 0 {
				last = m.OpName(n.h[len(n.h)-1])
			}
			wit := map[string]interface{}{"component": m.Name, "history": hist(n.h), "probe": m.OpName(op)}
			if bad != "" {
				x.Violation(m.Name, "crash-after-history", "after:"+last, bad, wit)
				continue
			}
			if out != out0[op] {
				wit["fresh_output"] = truncS(out0[op], 400)
				wit["reused_output"] = truncS(out, 400)
				x.Violation(m.Name, "state-leak", "after:"+last, fmt.Sprintf("probe %s behaves differently after history %v", m.OpName(op), hist(n.h)), wit)
			}
			if idle != idle0 {
				wit["fresh_state"] = truncS(idle0, 600)
				wit["state_after"] = truncS(idle, 600)
				wit["diff"] = fpDiff(idle0, idle)
				x.Violation(m.Name, "not-idle", "after:"+m.OpName(op), fmt.Sprintf("private state after completing %s (history %v) is not the idle state: %s", m.OpName(op), hist(n.h), fpDiff(idle0, idle)), wit)
			}
			nh := append(append([]int{}, n.h...), op)
			if d <= o.UnprunedDepth {
				seen[full] = true
				states++
				frontier = append(frontier, node{nh})
			} else if !seen[full] {
				seen[full] = true
				states++
				frontier = append(frontier, node{nh})
			} else {
				pruned++
			}
		}
	}
	x.Count("+states", states)
	x.Count("+transitions", transitions)
	x.Count("+evaluations", transitions)
	x.Count("+nontrivial", transitions-int64(m.NumOps))
	x.Count("bfs_pruned_by_fingerprint", pruned)
	x.Count("bfs_distinct_fingerprints", int64(len(seen)))
	if fixpoint {
		x.Count("bfs_fixpoints_reached", 1)
	} else {
		x.Count("bfs_depth_capped", 1)
	}
	x.Count("bfs_max_depth_"+m.Name, int64(maxDepth))
}

func truncS(s string, n int) string {
	if len(s) > n {
		return s[:n] + "…"
	}
	return s
}

// fpDiff names the first differing field of two fingerprints.
func fpDiff(a, b string) string {
	fa, fb := strings.Fields(a), strings.Fields(b)
	for i := 0; i < len(fa) && i < len(fb); i++ {
		if fa[i] != fb[i] {
			return fmt.Sprintf("fresh %q, now %q", truncS(fa[i], 120), truncS(fb[i], 120))
		}
	}
	return fmt.Sprintf("lengths differ (%d vs %d fields)", len(fa), len(fb))
}
