// Package engine is the bounded exhaustive explorer shared by all checks.
//
// One execution is one vector of choices. A check's body asks the Exec for
// Choose(n) (value choice: always fully expanded) or Dev(n) (deviation choice:
// non-zero answers cost 1 against the deviation bound). The explorer runs the
// body again and again, odometer style (stateless depth-first search), until
// every vector has been executed.
package engine

import (
	"encoding/json"
	"fmt"
	"hash/fnv"
	"os"
	"runtime/debug"
	"strings"
	"time"
)

// Infra is the panic value used for infrastructure errors (never a violation).
type Infra struct{ Msg string }

func (i Infra) Error() string { return "infrastructure error: " + i.Msg }

// Fail raises an infrastructure error.
func Fail(format string, args ...interface{}) { panic(Infra{fmt.Sprintf(format, args...)}) }

type point struct {
	n, c int
	dev  bool
}

// Violation describes one violating execution.
type Violation struct {
	Property string      `json:"property"`
	Family   string      `json:"family"`
	Entry    string      `json:"entry"`
	Symptom  string      `json:"symptom"`
	Class    string      `json:"class"`
	Detail   string      `json:"detail,omitempty"`
	Witness  interface{} `json:"witness,omitempty"`
	Prefix   []int       `json:"shard_prefix"`
	Choices  []int       `json:"choices"`
	Count    int64       `json:"count"`
	Size     int         `json:"size"`
}

// Key identifies the class of a violation for de-duplication and for matching known findings.
func (v *Violation) Key() string {
	return v.Property + "|" + v.Entry + "|" + v.Symptom + "|" + v.Class
}

// Stats are the measured coverage numbers of one job (or, merged, of one check).
type Stats struct {
	Evals      int64            `json:"evals"`
	Nodes      int64            `json:"nodes"`
	Edges      int64            `json:"edges"`
	Nontrivial int64            `json:"nontrivial"`
	Counters   map[string]int64 `json:"counters,omitempty"`
	Outcomes   []uint64         `json:"outcomes,omitempty"`
	Samples    []interface{}    `json:"samples,omitempty"`
	Violations []*Violation     `json:"violations,omitempty"`
	Exhaustive bool             `json:"exhaustive"`
	Capped     string           `json:"capped,omitempty"`
	MaxDepth   int              `json:"max_depth"`
	DevBound   int              `json:"dev_bound"`
}

// Exec is handed to a check body for one execution.
type Exec struct {
	Tier     string
	Property string
	Family   string

	stack    []point
	pos      int
	fixed    int // length of the shard prefix (never advanced)
	prefix   []int
	devBound int
	empty    bool // shard prefix out of range: shard is empty

	replayOnly bool // replay of an explicit vector: no extension beyond it allowed? (extension with 0 is allowed)

	// per-run buffers, committed by the explorer when the run belongs to the shard
	rViol     []*Violation
	rCase     uint64
	rCaseSet  bool
	rNontriv  bool
	rOutcome  []uint64
	rSample   func() interface{}
	rCounters map[string]int64
	rJournal  string

	journal *os.File
	skip    map[string]bool
}

// Choose returns a value choice in [0,n).
func (x *Exec) Choose(n int) int { return x.choose(n, false) }

// Dev returns a deviation choice in [0,n); 0 is the default answer.
func (x *Exec) Dev(n int) int { return x.choose(n, true) }

// Bool is Choose(2)==1.
func (x *Exec) Bool() bool { return x.Choose(2) == 1 }

func (x *Exec) choose(n int, dev bool) int {
	if n <= 0 {
		Fail("Choose(%d)", n)
	}
	if x.pos < len(x.stack) {
		p := &x.stack[x.pos]
		if p.n == -1 { // shard prefix point seen for the first time
			p.n, p.dev = n, dev
			if p.c >= n {
				x.empty = true
				panic(emptyShard{})
			}
		} else if p.n != n || p.dev != dev {
			Fail("replay divergence at point %d: recorded n=%d dev=%v, now n=%d dev=%v (prefix %v)", x.pos, p.n, p.dev, n, dev, x.Choices())
		}
		x.pos++
		return p.c
	}
	x.stack = append(x.stack, point{n: n, c: 0, dev: dev})
	x.pos++
	return 0
}

type emptyShard struct{}

// Choices returns the current choice vector (up to the current position).
func (x *Exec) Choices() []int {
	out := make([]int, 0, x.pos)
	for _, p := range x.stack[:x.pos] {
		out = append(out, p.c)
	}
	return out
}

// Case declares the identity of the case of this run (for distinct counting) and whether it is non-trivial.
func (x *Exec) Case(key string, nontrivial bool) {
	h := fnv.New64a()
	h.Write([]byte(key))
	x.rCase, x.rCaseSet, x.rNontriv = h.Sum64(), true, nontrivial
}

// Outcome records a (normalised) observation of this run; distinct outcomes are counted.
func (x *Exec) Outcome(s string) {
	h := fnv.New64a()
	h.Write([]byte(s))
	x.rOutcome = append(x.rOutcome, h.Sum64())
}

// Sample registers a lazily built description of this run's case.
func (x *Exec) Sample(f func() interface{}) { x.rSample = f }

// Count adds to a named counter.
func (x *Exec) Count(name string, n int64) {
	if x.rCounters == nil {
		x.rCounters = map[string]int64{}
	}
	x.rCounters[name] += n
}

// Journal notes the case that is about to run, so that a fatal (unrecoverable) error of the
// process can be attributed to it by the driver. A case that was fatal before is skipped.
func (x *Exec) Journal(entry, class, desc string) {
	if x.journal == nil && x.skip == nil {
		return
	}
	k := vecKey(x.Choices())
	if x.skip[k] {
		panic(skipRun{})
	}
	if x.journal == nil {
		return
	}
	b := []byte(k + "\t" + entry + "\t" + class + "\t" + strings.ReplaceAll(desc, "\n", " ") + "\n")
	x.journal.Truncate(0)
	x.journal.WriteAt(b, 0)
}

type skipRun struct{}

// Violation reports a violating execution.
func (x *Exec) Violation(entry, symptom, class, detail string, witness interface{}) {
	v := &Violation{Property: x.Property, Family: x.Family, Entry: entry, Symptom: symptom, Class: class,
		Detail: detail, Witness: witness, Prefix: x.prefix, Count: 1}
	x.rViol = append(x.rViol, v)
}

// Explorer runs one family on one shard.
type Explorer struct {
	Property string
	Family   string
	Tier     string
	Prefix   []int
	DevBound int
	Deadline time.Time
	Journal  *os.File
	Skip     map[string]bool // choice vectors (as string) to skip (previously fatal)
	Body     func(x *Exec)

	St       Stats
	cases    map[uint64]struct{}
	outcomes map[uint64]struct{}
	viol     map[string]*Violation
}

const maxOutcomes = 1 << 16
const maxCases = 24 << 20

// Run explores the shard completely (or until the deadline).
func (e *Explorer) Run() {
	e.cases = map[uint64]struct{}{}
	e.outcomes = map[uint64]struct{}{}
	e.viol = map[string]*Violation{}
	e.St.Exhaustive = true
	e.St.DevBound = e.DevBound
	x := &Exec{Tier: e.Tier, Property: e.Property, Family: e.Family, devBound: e.DevBound, prefix: e.Prefix, journal: e.Journal, skip: e.Skip}
	for _, c := range e.Prefix {
		x.stack = append(x.stack, point{n: -1, c: c})
	}
	x.fixed = len(e.Prefix)
	runs := int64(0)
	lastCheck := time.Now()
	if !e.Deadline.IsZero() && lastCheck.After(e.Deadline) {
		e.St.Exhaustive = false
		e.St.Capped = "internal deadline reached"
		return
	}
	for {
		belongs := e.runOnce(x)
		if x.empty {
			break
		}
		if belongs {
			e.commit(x)
		}
		runs++
		if !e.advance(x) {
			break
		}
		if runs&0x3f == 0 && !e.Deadline.IsZero() {
			if now := time.Now(); now.After(e.Deadline) {
				e.St.Exhaustive = false
				e.St.Capped = "internal deadline reached"
				break
			}
		}
	}
	for h := range e.outcomes {
		e.St.Outcomes = append(e.St.Outcomes, h)
	}
	for _, v := range e.viol {
		e.St.Violations = append(e.St.Violations, v)
	}
	e.St.Nontrivial = int64(len(e.cases))
}

func vecKey(v []int) string {
	var sb strings.Builder
	for i, c := range v {
		if i > 0 {
			sb.WriteByte(',')
		}
		fmt.Fprintf(&sb, "%d", c)
	}
	return sb.String()
}

// runOnce executes the body once; returns whether the run belongs to this shard.
func (e *Explorer) runOnce(x *Exec) (belongs bool) {
	x.pos = 0
	x.rViol, x.rCaseSet, x.rNontriv, x.rOutcome, x.rSample, x.rCounters = nil, false, false, nil, nil, nil
	before := len(x.stack)
	func() {
		defer func() {
			if r := recover(); r != nil {
				switch v := r.(type) {
				case emptyShard:
					return
				case skipRun:
					x.Count("skipped_after_fatal", 1)
					return
				case Infra:
					panic(v)
				default:
					st := string(debug.Stack())
					if fn := libraryPanicFrame(st); fn != "" {
						// a panic raised inside the library escaped a part of the harness that is not
						// individually guarded: that is a crash of the code under test, not of the harness
						x.rViol = append(x.rViol, &Violation{Property: x.Property, Family: x.Family, Entry: "library", Symptom: "panic", Class: "unguarded:" + fn,
							Detail: fmt.Sprintf("%v (in %s)", r, fn), Witness: map[string]interface{}{"stack": truncS(st, 1500)}, Prefix: x.prefix, Count: 1})
						return
					}
					panic(Infra{fmt.Sprintf("uncaught panic in check body (choices %v): %v\n%s", x.Choices(), r, st)})
				}
			}
		}()
		e.Body(x)
	}()
	if x.empty {
		return false
	}
	// a run that ended before consuming the whole shard prefix belongs to the
	// shard whose unconsumed prefix values are all zero
	if x.pos < x.fixed {
		for _, p := range x.stack[x.pos:x.fixed] {
			if p.c != 0 {
				return false
			}
		}
		// the canonical shard runs it; nothing below this point can be advanced
		x.stack = x.stack[:x.pos]
		x.fixed = x.pos
	}
	if n := int64(len(x.stack) - before); n > 0 {
		e.St.Nodes += n
		e.St.Edges += n
	}
	if len(x.stack) > e.St.MaxDepth {
		e.St.MaxDepth = len(x.stack)
	}
	return true
}

func (e *Explorer) commit(x *Exec) {
	e.St.Evals++
	if x.rCaseSet {
		if x.rNontriv && len(e.cases) < maxCases {
			e.cases[x.rCase] = struct{}{}
		}
	} else {
		h := fnv.New64a()
		h.Write([]byte(vecKey(x.Choices())))
		if len(e.cases) < maxCases {
			e.cases[h.Sum64()] = struct{}{}
		}
	}
	for _, o := range x.rOutcome {
		if len(e.outcomes) < maxOutcomes {
			e.outcomes[o] = struct{}{}
		}
	}
	for k, v := range x.rCounters {
		if e.St.Counters == nil {
			e.St.Counters = map[string]int64{}
		}
		e.St.Counters[k] += v
	}
	if x.rSample != nil {
		n := e.St.Evals
		if n <= 2 || (isPow10(n) && len(e.St.Samples) < 8) {
			e.St.Samples = append(e.St.Samples, x.rSample())
		}
	}
	if len(x.rViol) > 0 {
		ch := x.Choices()
		// determinism check: the same vector must give the same violations five times
		sig := violSig(x.rViol)
		viol := x.rViol
		for i := 0; i < 4; i++ {
			y := &Exec{Tier: x.Tier, Property: x.Property, Family: x.Family, devBound: x.devBound, prefix: x.prefix}
			for j, c := range ch {
				y.stack = append(y.stack, point{n: x.stack[j].n, c: c, dev: x.stack[j].dev})
			}
			y.fixed = len(ch)
			func() {
				defer func() {
					if r := recover(); r != nil {
						if inf, ok := r.(Infra); ok {
							panic(inf)
						}
						panic(Infra{fmt.Sprintf("panic while re-running violating vector %v: %v", ch, r)})
					}
				}()
				e.Body(y)
			}()
			if s := violSig(y.rViol); s != sig {
				Fail("non-deterministic violation for choices %v: first %q, rerun %d %q", ch, sig, i+1, s)
			}
		}
		for _, v := range viol {
			v.Choices = ch
			b, _ := json.Marshal(v.Witness)
			v.Size = len(b) + len(ch)
			if old := e.viol[v.Key()]; old == nil {
				e.viol[v.Key()] = v
			} else {
				old.Count++
				if v.Size < old.Size {
					v.Count = old.Count
					e.viol[v.Key()] = v
				}
			}
		}
	}
}

func violSig(vs []*Violation) string {
	var sb strings.Builder
	for _, v := range vs {
		// the class key only: details may render Go maps, whose iteration order is not owned
		sb.WriteString(v.Key())
		sb.WriteByte(';')
	}
	return sb.String()
}

func isPow10(n int64) bool {
	for n >= 10 && n%10 == 0 {
		n /= 10
	}
	return n == 1
}

// advance moves the odometer to the next vector; false when the shard is exhausted.
func (e *Explorer) advance(x *Exec) bool {
	// drop points that were not reached in the last run (cannot happen with a
	// deterministic body, but a shorter run is legal after an advance)
	x.stack = x.stack[:max(x.pos, x.fixed)]
	cnt := devCount(x.stack)
	for i := len(x.stack) - 1; i >= x.fixed; i-- {
		p := &x.stack[i]
		if p.dev && p.c != 0 {
			cnt-- // cnt == devCount(x.stack[:i])
		}
		if p.c+1 < p.n {
			if p.dev && p.c == 0 && cnt >= x.devBound {
				x.stack = x.stack[:i]
				continue
			}
			p.c++
			x.stack = x.stack[:i+1]
			e.St.Edges++
			return true
		}
		x.stack = x.stack[:i]
	}
	return false
}

func devCount(ps []point) int {
	n := 0
	for _, p := range ps {
		if p.dev && p.c != 0 {
			n++
		}
	}
	return n
}

// Replay runs body once with exactly the given choice vector and returns the violations observed.
func Replay(property, family, tier string, prefix, choices []int, body func(x *Exec)) []*Violation {
	x := &Exec{Tier: tier, Property: property, Family: family, prefix: prefix, devBound: 1 << 30}
	for _, c := range choices {
		x.stack = append(x.stack, point{n: -1, c: c})
	}
	x.fixed = len(choices)
	func() {
		defer func() {
			if r := recover(); r != nil {
				if _, ok := r.(emptyShard); ok {
					Fail("replay vector out of range: %v", choices)
				}
				panic(r)
			}
		}()
		body(x)
	}()
	for _, v := range x.rViol {
		v.Choices = choices
	}
	return x.rViol
}

// libraryPanicFrame returns the library function in which a panic was raised (the first frame below
// the runtime's panic frames), or "" if the panic was raised by harness code.
func libraryPanicFrame(stack string) string {
	lines := strings.Split(stack, "\n")
	for i := 0; i < len(lines); i++ {
		if strings.HasPrefix(lines[i], "panic(") {
			// skip further runtime frames (runtime.goPanicIndex, runtime.panicmem, ...)
			for j := i + 2; j+1 < len(lines); j += 2 {
				fn := lines[j]
				if strings.HasPrefix(fn, "runtime.") || strings.HasPrefix(fn, "panic(") || strings.HasPrefix(fn, "reflect.") {
					continue
				}
				if strings.HasPrefix(fn, "github.com/elastic/go-structform") && !strings.Contains(fn, "/verifrt.") {
					if k := strings.Index(fn, "("); k > 0 {
						fn = fn[:k]
					}
					return strings.TrimPrefix(fn, "github.com/elastic/go-structform/")
				}
				return ""
			}
		}
	}
	return ""
}
