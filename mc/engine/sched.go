package engine

import (
	"fmt"
	"runtime"
	"runtime/debug"
)

// Sched is a cooperative scheduler: exactly one of the harness goroutines runs at a time and
// control changes hands only at scheduling points (Point), which the instrumented library calls
// at every function entry and loop iteration and the harness calls around its own sinks.
//
// Enabled threads are kept in canonical order (the running thread first, then ascending ids).
// Switching away from a still-runnable thread is a preemption. The first preemption of an
// execution is an explicit value choice of the explorer (position FirstPreempt, so that the
// space can be sharded by it); every later point is a deviation choice, so the total preemption
// bound is 1 + the family's deviation bound.
type Sched struct {
	x            *Exec
	threads      []*schedThread
	cur          int
	points       int  // points passed at which another thread was enabled
	FirstPreempt int  // index of the point of the first preemption (-1: none)
	NoLater      bool // no preemptions after the first one (bound 1 for this execution)
	firstTarget  int
	Preemptions  int
	Trace        []int // thread ids in the order they were given control
	abort        bool
	failure      interface{}
	main         chan struct{}
}

type schedThread struct {
	id     int
	resume chan struct{}
	done   bool
	panic  interface{}
	stack  []byte
}

type schedAbort struct{}

// NewSched creates a scheduler for one execution.
func NewSched(x *Exec, firstPreempt, firstTarget int) *Sched {
	return &Sched{x: x, FirstPreempt: firstPreempt, firstTarget: firstTarget, main: make(chan struct{})}
}

// Run executes the bodies under the scheduler, starting with thread start. It returns for every
// thread the value it panicked with (nil if none) and whether all threads finished.
func (s *Sched) Run(start int, bodies []func()) (panics []interface{}, stacks [][]byte) {
	s.threads = nil
	for i := range bodies {
		s.threads = append(s.threads, &schedThread{id: i, resume: make(chan struct{})})
	}
	for i, b := range bodies {
		t, body := s.threads[i], b
		go func() {
			<-t.resume
			defer func() {
				if r := recover(); r != nil {
					if _, ok := r.(schedAbort); !ok {
						if inf, ok := r.(Infra); ok {
							s.failure = inf
							s.abort = true
						} else {
							t.panic = r
							t.stack = debug.Stack()
						}
					}
				}
				t.done = true
				s.next()
			}()
			if s.abort {
				return
			}
			body()
		}()
	}
	s.cur = start
	s.Trace = append(s.Trace, start)
	s.threads[start].resume <- struct{}{}
	<-s.main
	if s.failure != nil {
		panic(s.failure)
	}
	for _, t := range s.threads {
		panics = append(panics, t.panic)
		stacks = append(stacks, t.stack)
	}
	return
}

// next hands control to the lowest enabled thread, or finishes the execution (called by a finishing thread).
func (s *Sched) next() {
	for _, t := range s.threads {
		if !t.done {
			s.cur = t.id
			s.Trace = append(s.Trace, t.id)
			t.resume <- struct{}{}
			return
		}
	}
	close(s.main)
}

// Point is a scheduling point of the running thread.
func (s *Sched) Point() {
	if s.abort {
		panic(schedAbort{})
	}
	var others []int
	for _, t := range s.threads {
		if !t.done && t.id != s.cur {
			others = append(others, t.id)
		}
	}
	if len(others) == 0 {
		return
	}
	idx := s.points
	s.points++
	target := -1
	switch {
	case idx == s.FirstPreempt:
		target = others[s.firstTarget%len(others)]
	case s.FirstPreempt >= 0 && idx > s.FirstPreempt && !s.NoLater:
		// later preemptions are deviations
		if c := s.x.Dev(len(others) + 1); c > 0 {
			target = others[c-1]
		}
	}
	if target < 0 {
		return
	}
	s.Preemptions++
	me := s.threads[s.cur]
	s.cur = target
	s.Trace = append(s.Trace, target)
	s.threads[target].resume <- struct{}{}
	<-me.resume
	if s.abort {
		panic(schedAbort{})
	}
}

// Points returns the number of scheduling points at which a switch was possible.
func (s *Sched) Points() int { return s.points }

func (s *Sched) String() string {
	return fmt.Sprintf("first preemption at point %d, %d preemptions, control order %v", s.FirstPreempt, s.Preemptions, s.Trace)
}

var _ = runtime.Gosched
