package engine

import (
	"bufio"
	"bytes"
	"crypto/sha1"
	"encoding/json"
	"fmt"
	"io"
	"os"
	"os/exec"
	"path/filepath"
	"runtime"
	"sort"
	"strconv"
	"strings"
	"sync"
	"syscall"
	"time"
)

// Family is one generator + oracle; it is explored shard by shard.
type Family struct {
	Name  string
	Arity []int // static upper bounds of the first choice points, used as shard prefixes
	Dev   int   // deviation bound
	Body  func(x *Exec)
}

// Check is the description of one property's check.
type Check struct {
	ID          string
	Level       string // evidence level
	Rule        string
	Assumptions []string
	Risky       bool     // journal every case (fatal errors expected to be possible)
	Require     []string // counters that must be non-zero (non-vacuity); otherwise infrastructure error
	Families    func(tier string) []Family
	Bounds      func(tier string) map[string]interface{}
	// Standalone, if set, replaces the explorer for workers of this check (e.g. free-running race pass);
	// it is run once by the driver in a worker process after the families, and returns extra counters.
}

// AtWorkerExit, if set, runs when a worker process ends normally (coverage dump of instrumented builds).
var AtWorkerExit func()

var registry = map[string]*Check{}

// Register adds a check.
func Register(c *Check) { registry[c.ID] = c }

// Lookup finds a check.
func Lookup(id string) *Check { return registry[id] }

// IDs lists registered checks.
func IDs() []string {
	var ids []string
	for id := range registry {
		ids = append(ids, id)
	}
	sort.Strings(ids)
	return ids
}

type job struct {
	Idx    int      `json:"idx"`
	Family int      `json:"family"`
	Prefix []int    `json:"prefix"`
	Skip   []string `json:"skip,omitempty"`
}

type jobResult struct {
	Idx   int    `json:"idx"`
	Infra string `json:"infra,omitempty"`
	St    Stats  `json:"st"`
}

func verifDir() string {
	if d := os.Getenv("VERIF_DIR"); d != "" {
		return d
	}
	return "/verif"
}

// outDir is where evidence and replay files go (VERIF_OUT redirects them for runs against scratch copies).
func outDir() string {
	if d := os.Getenv("VERIF_OUT"); d != "" {
		return d
	}
	return verifDir()
}

// WorkerMain is the loop of a worker process: one job per input line, one result per output line.
func WorkerMain(id, tier string) {
	c := Lookup(id)
	if c == nil {
		fmt.Fprintln(os.Stderr, "unknown check", id)
		os.Exit(2)
	}
	if lim := os.Getenv("MC_ASLIMIT"); lim != "" {
		if n, err := strconv.ParseUint(lim, 10, 64); err == nil && n > 0 {
			syscall.Setrlimit(syscall.RLIMIT_AS, &syscall.Rlimit{Cur: n, Max: n})
		}
	}
	var deadline time.Time
	if d := os.Getenv("MC_DEADLINE"); d != "" {
		if n, err := strconv.ParseInt(d, 10, 64); err == nil {
			deadline = time.Unix(n, 0)
		}
	}
	var journal *os.File
	if p := os.Getenv("MC_JOURNAL"); p != "" {
		journal, _ = os.OpenFile(p, os.O_CREATE|os.O_RDWR|os.O_TRUNC, 0o644)
	}
	fams := c.Families(tier)
	if AtWorkerExit != nil {
		defer AtWorkerExit()
	}
	in := bufio.NewReaderSize(os.Stdin, 1<<20)
	out := bufio.NewWriter(os.Stdout)
	for {
		line, err := in.ReadBytes('\n')
		if len(line) == 0 && err != nil {
			return
		}
		var j job
		if e := json.Unmarshal(line, &j); e != nil {
			fmt.Fprintln(os.Stderr, "bad job line:", e)
			os.Exit(2)
		}
		res := jobResult{Idx: j.Idx}
		func() {
			defer func() {
				if r := recover(); r != nil {
					if inf, ok := r.(Infra); ok {
						res.Infra = inf.Msg
						return
					}
					panic(r)
				}
			}()
			f := fams[j.Family]
			e := &Explorer{Property: id, Family: f.Name, Tier: tier, Prefix: j.Prefix, DevBound: f.Dev,
				Deadline: deadline, Journal: journal, Body: f.Body}
			if len(j.Skip) > 0 {
				e.Skip = map[string]bool{}
				for _, s := range j.Skip {
					e.Skip[s] = true
				}
			}
			e.Run()
			res.St = e.St
		}()
		b, _ := json.Marshal(res)
		out.Write(b)
		out.WriteByte('\n')
		out.Flush()
		if err != nil {
			return
		}
	}
}

type finding struct {
	ID       string      `json:"id"`
	Property string      `json:"property"`
	Entry    string      `json:"entry"`
	Symptom  string      `json:"symptom"`
	Class    string      `json:"class"`
	What     string      `json:"what"`
	Witness  interface{} `json:"witness,omitempty"`
}

type findingsFile struct {
	Open  []finding `json:"open"`
	Fixed []string  `json:"fixed"`
}

func loadFindings() (findingsFile, error) {
	var ff findingsFile
	b, err := os.ReadFile(filepath.Join(verifDir(), "known_findings.json"))
	if err != nil {
		if os.IsNotExist(err) {
			return ff, nil
		}
		return ff, err
	}
	err = json.Unmarshal(b, &ff)
	return ff, err
}

type workerProc struct {
	cmd     *exec.Cmd
	in      io.WriteCloser
	out     *bufio.Reader
	stderr  *bytes.Buffer
	journal string
}

func startWorker(id, tier string, n int, deadline time.Time, c *Check, buildDir string) (*workerProc, error) {
	exe, err := os.Executable()
	if err != nil {
		return nil, err
	}
	cmd := exec.Command(exe, "worker", id, tier)
	cmd.SysProcAttr = &syscall.SysProcAttr{Pdeathsig: syscall.SIGKILL} // workers never outlive the driver
	w := &workerProc{cmd: cmd, stderr: &bytes.Buffer{}}
	cmd.Stderr = w.stderr
	env := os.Environ()
	if os.Getenv("MC_GOMAXPROCS") == "" {
		env = append(env, "GOMAXPROCS=1")
	} else {
		env = append(env, "GOMAXPROCS="+os.Getenv("MC_GOMAXPROCS"))
	}
	if !deadline.IsZero() {
		env = append(env, fmt.Sprintf("MC_DEADLINE=%d", deadline.Unix()))
	}
	if c.Risky {
		w.journal = filepath.Join(buildDir, fmt.Sprintf("journal.%s.%d", id, n))
		env = append(env, "MC_JOURNAL="+w.journal)
	}
	if os.Getenv("MC_ASLIMIT") == "" && os.Getenv("MC_RACE") == "" {
		env = append(env, fmt.Sprintf("MC_ASLIMIT=%d", uint64(8)<<30))
	}
	cmd.Env = env
	if w.in, err = cmd.StdinPipe(); err != nil {
		return nil, err
	}
	so, err := cmd.StdoutPipe()
	if err != nil {
		return nil, err
	}
	w.out = bufio.NewReaderSize(so, 1<<20)
	if err := cmd.Start(); err != nil {
		return nil, err
	}
	return w, nil
}

func (w *workerProc) stop() {
	w.in.Close()
	done := make(chan struct{})
	go func() { w.cmd.Wait(); close(done) }()
	select {
	case <-done:
	case <-time.After(5 * time.Second):
		w.cmd.Process.Kill()
		<-done
	}
}

func firstFatalLine(s string) string {
	for _, l := range strings.Split(s, "\n") {
		l = strings.TrimSpace(l)
		if strings.HasPrefix(l, "fatal error:") || strings.HasPrefix(l, "runtime:") || strings.HasPrefix(l, "panic:") || strings.HasPrefix(l, "unexpected fault") || strings.HasPrefix(l, "signal") {
			return l
		}
	}
	s = strings.TrimSpace(s)
	if len(s) > 200 {
		s = s[:200]
	}
	return s
}

// DriverMain runs one check and returns the process exit code.
func DriverMain(id, tier string) int {
	start := time.Now()
	c := Lookup(id)
	if c == nil {
		fmt.Fprintln(os.Stderr, "unknown check", id)
		return 2
	}
	seed := 0
	if s := os.Getenv("VERIF_SEED"); s != "" {
		if n, err := strconv.Atoi(s); err == nil {
			seed = n
		}
	}
	buildDir := os.Getenv("MC_BUILD_DIR")
	if buildDir == "" {
		buildDir = os.TempDir()
	}
	budget := 5 * time.Minute
	if tier == "thorough" {
		budget = 40 * time.Minute
	}
	if s := os.Getenv("MC_BUDGET_S"); s != "" {
		if n, err := strconv.Atoi(s); err == nil {
			budget = time.Duration(n) * time.Second
		}
	}
	deadline := start.Add(budget)

	fams := c.Families(tier)
	var jobs []job
	for fi, f := range fams {
		prefixes := [][]int{{}}
		for _, a := range f.Arity {
			var next [][]int
			for _, p := range prefixes {
				for i := 0; i < a; i++ {
					q := append(append([]int{}, p...), i)
					next = append(next, q)
				}
			}
			prefixes = next
		}
		for _, p := range prefixes {
			jobs = append(jobs, job{Idx: len(jobs), Family: fi, Prefix: p})
		}
	}
	// VERIF_SEED only rotates the order in which shards are handed out
	if len(jobs) > 0 && seed != 0 {
		r := ((seed % len(jobs)) + len(jobs)) % len(jobs)
		jobs = append(jobs[r:], jobs[:r]...)
	}
	nw := runtime.NumCPU()
	if s := os.Getenv("MC_WORKERS"); s != "" {
		if n, err := strconv.Atoi(s); err == nil && n > 0 {
			nw = n
		}
	}
	if nw > len(jobs) {
		nw = len(jobs)
	}
	if nw < 1 {
		nw = 1
	}

	var (
		mu       sync.Mutex
		results  = map[int]*jobResult{}
		fatals   []*Violation
		infra    []string
		restarts int
		aborted  string
	)
	const maxFatals = 12
	queue := make(chan job, len(jobs)+16)
	for _, j := range jobs {
		queue <- j
	}
	pending := int64(len(jobs))
	var wg sync.WaitGroup
	done := make(chan struct{})
	for wi := 0; wi < nw; wi++ {
		wg.Add(1)
		go func(wi int) {
			defer wg.Done()
			var w *workerProc
			defer func() {
				if w != nil {
					w.stop()
				}
			}()
			for {
				var j job
				select {
				case j = <-queue:
				case <-done:
					return
				}
				for attempt := 0; ; attempt++ {
					mu.Lock()
					stop := aborted != "" || time.Now().After(deadline)
					mu.Unlock()
					if stop {
						break // leave the job unfinished: reported as exhaustive=false
					}
					if w == nil {
						var err error
						if w, err = startWorker(id, tier, wi, deadline, c, buildDir); err != nil {
							mu.Lock()
							infra = append(infra, "cannot start worker: "+err.Error())
							mu.Unlock()
							return
						}
					}
					b, _ := json.Marshal(j)
					w.in.Write(append(b, '\n'))
					line, err := w.out.ReadBytes('\n')
					if err == nil {
						var r jobResult
						if e := json.Unmarshal(line, &r); e != nil {
							mu.Lock()
							infra = append(infra, "bad worker result: "+e.Error())
							mu.Unlock()
						} else {
							mu.Lock()
							results[j.Idx] = &r
							if r.Infra != "" {
								infra = append(infra, fmt.Sprintf("family %s prefix %v: %s", fams[j.Family].Name, j.Prefix, r.Infra))
							}
							mu.Unlock()
						}
						break
					}
					// worker died: attribute to the journaled case, restart past it
					w.cmd.Wait()
					stderr := w.stderr.String()
					var jl string
					if w.journal != "" {
						if jb, e := os.ReadFile(w.journal); e == nil {
							jl = strings.TrimSpace(string(jb))
						}
					}
					w = nil
					mu.Lock()
					restarts++
					if restarts >= maxFatals && aborted == "" {
						aborted = fmt.Sprintf("aborted after %d fatal worker errors (every one is reported; the remaining shards were not explored)", restarts)
					}
					mu.Unlock()
					if jl == "" || attempt > 200 {
						mu.Lock()
						infra = append(infra, fmt.Sprintf("worker died without journal (family %s prefix %v): %s", fams[j.Family].Name, j.Prefix, firstFatalLine(stderr)))
						mu.Unlock()
						break
					}
					parts := strings.SplitN(jl, "\t", 4)
					for len(parts) < 4 {
						parts = append(parts, "")
					}
					var choices []int
					for _, s := range strings.Split(parts[0], ",") {
						if s != "" {
							n, _ := strconv.Atoi(s)
							choices = append(choices, n)
						}
					}
					v := &Violation{Property: id, Family: fams[j.Family].Name, Entry: parts[1], Symptom: "fatal", Class: parts[2],
						Detail: firstFatalLine(stderr), Witness: parts[3], Prefix: j.Prefix, Choices: choices, Count: 1}
					mu.Lock()
					fatals = append(fatals, v)
					mu.Unlock()
					j.Skip = append(j.Skip, parts[0])
				}
				mu.Lock()
				pending--
				if pending == 0 {
					close(done)
				}
				mu.Unlock()
			}
		}(wi)
	}
	wg.Wait()

	// merge
	total := Stats{Exhaustive: true}
	total.Counters = map[string]int64{}
	outcomes := map[uint64]struct{}{}
	viol := map[string]*Violation{}
	addViol := func(v *Violation) {
		if old := viol[v.Key()]; old == nil {
			viol[v.Key()] = v
		} else {
			old.Count += v.Count
			if v.Size < old.Size {
				v.Count = old.Count
				viol[v.Key()] = v
			}
		}
	}
	famStats := map[string]*Stats{}
	capped := ""
	for _, j := range jobs {
		r := results[j.Idx]
		if r == nil {
			total.Exhaustive = false
			continue
		}
		st := r.St
		fs := famStats[fams[j.Family].Name]
		if fs == nil {
			fs = &Stats{}
			famStats[fams[j.Family].Name] = fs
		}
		fs.Evals += st.Evals
		fs.Nontrivial += st.Nontrivial
		total.Evals += st.Evals
		total.Nodes += st.Nodes
		total.Edges += st.Edges
		total.Nontrivial += st.Nontrivial
		if st.MaxDepth > total.MaxDepth {
			total.MaxDepth = st.MaxDepth
		}
		for k, v := range st.Counters {
			total.Counters[k] += v
			// explicit-state searches run inside one body execution and report their own numbers
			switch k {
			case "+states":
				total.Nodes += v
			case "+transitions":
				total.Edges += v
			case "+evaluations":
				total.Evals += v
				fs.Evals += v
			case "+nontrivial":
				total.Nontrivial += v
				fs.Nontrivial += v
			}
		}
		for _, o := range st.Outcomes {
			outcomes[o] = struct{}{}
		}
		if len(total.Samples) < 12 {
			for _, s := range st.Samples {
				if len(total.Samples) < 12 {
					total.Samples = append(total.Samples, s)
				}
			}
		}
		for _, v := range st.Violations {
			addViol(v)
		}
		if !st.Exhaustive && r.Infra == "" {
			total.Exhaustive = false
			capped = st.Capped
		}
	}
	if aborted != "" {
		capped = aborted
	} else if !total.Exhaustive && capped == "" {
		capped = "internal deadline reached before all shards were handed out"
	}
	for _, v := range fatals {
		addViol(v)
	}

	for _, req := range c.Require {
		if total.Counters[req] == 0 && len(infra) == 0 && total.Exhaustive {
			infra = append(infra, fmt.Sprintf("vacuous run: required counter %q is zero", req))
		}
	}

	// classify violations against known findings
	ff, err := loadFindings()
	if err != nil {
		infra = append(infra, "known_findings.json: "+err.Error())
	}
	known := map[string]finding{}
	for _, f := range ff.Open {
		known[f.Property+"|"+f.Entry+"|"+f.Symptom+"|"+f.Class] = f
	}
	var keys []string
	for k := range viol {
		keys = append(keys, k)
	}
	sort.Strings(keys)
	exit := 0
	var knownSeen []string
	nviol := 0
	repDir := filepath.Join(outDir(), "replays", id)
	os.RemoveAll(repDir)
	for _, k := range keys {
		v := viol[k]
		if f, ok := known[k]; ok {
			fmt.Printf("KNOWN-FINDING: property=%s %s [%s; %d executions this run]\n", id, f.What, f.ID, v.Count)
			knownSeen = append(knownSeen, f.ID)
			continue
		}
		nviol++
		os.MkdirAll(repDir, 0o755)
		h := sha1.Sum([]byte(k))
		path := filepath.Join(repDir, fmt.Sprintf("%x.json", h[:6]))
		rb, _ := json.MarshalIndent(map[string]interface{}{"tier": tier, "violation": v}, "", " ")
		os.WriteFile(path, rb, 0o644)
		fmt.Printf("VIOLATION property=%s replay=%s\n", id, path)
		fmt.Printf("  entry=%s symptom=%s class=%s count=%d\n  detail: %s\n", v.Entry, v.Symptom, v.Class, v.Count, trunc(v.Detail, 400))
		wb, _ := json.Marshal(v.Witness)
		fmt.Printf("  witness: %s\n", trunc(string(wb), 600))
		exit = 1
	}
	if len(infra) > 0 {
		sort.Strings(infra)
		for i, m := range infra {
			if i < 10 {
				fmt.Printf("INFRA-ERROR: %s\n", trunc(m, 2000))
			}
		}
		if exit == 0 {
			exit = 2
		}
	}

	// evidence
	wall := time.Since(start).Seconds()
	if len(total.Samples) == 0 {
		total.Samples = []interface{}{"(no sample recorded)"}
	}
	fam := map[string]interface{}{}
	for n, s := range famStats {
		fam[n] = map[string]int64{"evaluations": s.Evals, "distinct_nontrivial": s.Nontrivial}
	}
	cov := map[string]interface{}{
		"evaluations":                   total.Evals,
		"distinct_nontrivial":           total.Nontrivial,
		"rule":                          c.Rule,
		"samples":                       total.Samples,
		"states":                        total.Nodes + total.Evals,
		"transitions":                   total.Edges,
		"traces_validated_against_impl": total.Evals,
		"exhaustive":                    total.Exhaustive && len(infra) == 0,
		"distinct_outcomes":             len(outcomes),
		"max_decision_depth":            total.MaxDepth,
		"counters":                      total.Counters,
		"families":                      fam,
		"shards":                        len(jobs),
		"workers":                       nw,
		"worker_restarts_after_fatal":   restarts,
		"known_findings_observed":       knownSeen,
		"explanation":                   "stateless exhaustive exploration of the real implementation: states = decision nodes + complete executions, transitions = choice edges taken; every execution runs on the implementation rebuilt from /repo's working tree, so traces_validated_against_impl = evaluations",
	}
	if c.Bounds != nil {
		cov["bounds"] = c.Bounds(tier)
	}
	if capped != "" {
		cov["capped"] = capped
	}
	if b, err := os.ReadFile(filepath.Join(buildDir, "instr.json")); err == nil {
		var inf map[string]interface{}
		if json.Unmarshal(b, &inf) == nil {
			cov["instrumentation"] = inf
		}
	}
	ev := map[string]interface{}{
		"property_id": id,
		"tier":        tier,
		"seed":        seed,
		"level":       c.Level,
		"coverage":    cov,
		"assumptions": c.Assumptions,
		"wall_s":      wall,
		"violations":  nviol,
	}
	eb, _ := json.MarshalIndent(ev, "", " ")
	os.MkdirAll(filepath.Join(outDir(), "evidence"), 0o755)
	if err := os.WriteFile(filepath.Join(outDir(), "evidence", id+".json"), append(eb, '\n'), 0o644); err != nil {
		fmt.Println("INFRA-ERROR: cannot write evidence:", err)
		if exit == 0 {
			exit = 2
		}
	}
	fmt.Printf("%s %s: evaluations=%d distinct_nontrivial=%d states=%d transitions=%d outcomes=%d exhaustive=%v violations=%d known=%d wall=%.1fs\n",
		id, tier, total.Evals, total.Nontrivial, total.Nodes+total.Evals, total.Edges, len(outcomes), total.Exhaustive && len(infra) == 0, nviol, len(knownSeen), wall)
	return exit
}

func trunc(s string, n int) string {
	if len(s) > n {
		return s[:n] + "…"
	}
	return s
}

// ReplayMain re-executes the violating execution stored in a replay file and prints what it observes.
func ReplayMain(path string) int {
	b, err := os.ReadFile(path)
	if err != nil {
		fmt.Fprintln(os.Stderr, err)
		return 2
	}
	var rf struct {
		Tier      string    `json:"tier"`
		Violation Violation `json:"violation"`
	}
	if err := json.Unmarshal(b, &rf); err != nil {
		fmt.Fprintln(os.Stderr, err)
		return 2
	}
	v := rf.Violation
	c := Lookup(v.Property)
	if c == nil {
		fmt.Fprintln(os.Stderr, "unknown check", v.Property)
		return 2
	}
	for _, f := range c.Families(rf.Tier) {
		if f.Name != v.Family {
			continue
		}
		if v.Symptom == "fatal" {
			fmt.Printf("replaying a fatal case in-process (the process is expected to die): %v\n", v.Witness)
		}
		got := Replay(v.Property, f.Name, rf.Tier, v.Prefix, v.Choices, f.Body)
		if len(got) == 0 {
			fmt.Printf("replay of %s: no violation observed (choices %v)\n", path, v.Choices)
			return 0
		}
		for _, g := range got {
			wb, _ := json.Marshal(g.Witness)
			fmt.Printf("VIOLATION property=%s replay=%s\n  entry=%s symptom=%s class=%s\n  detail: %s\n  witness: %s\n", g.Property, path, g.Entry, g.Symptom, g.Class, g.Detail, wb)
		}
		return 1
	}
	fmt.Fprintln(os.Stderr, "family not found:", v.Family)
	return 2
}
