package model

import (
	"fmt"
	"reflect"
	"strings"
)

// UnfoldSupported says whether a target type is within the documented supported kinds for
// unfolding: booleans, strings, every integer and float width, empty interfaces, slices,
// string-keyed maps, structs (inline only for struct-typed fields, member names unique),
// pointers and nestings of these. Everything else must be refused with an error.
func UnfoldSupported(t reflect.Type) (bool, string) {
	return unfoldSupported(t, map[reflect.Type]bool{})
}

func unfoldSupported(t reflect.Type, seen map[reflect.Type]bool) (bool, string) {
	switch t.Kind() {
	case reflect.Bool, reflect.String, reflect.Int, reflect.Int8, reflect.Int16, reflect.Int32, reflect.Int64,
		reflect.Uint, reflect.Uint8, reflect.Uint16, reflect.Uint32, reflect.Uint64, reflect.Float32, reflect.Float64:
		return true, ""
	case reflect.Interface:
		if t.NumMethod() != 0 {
			return false, "non-empty interface target"
		}
		return true, ""
	case reflect.Ptr, reflect.Slice:
		return unfoldSupported(t.Elem(), seen)
	case reflect.Map:
		if t.Key().Kind() != reflect.String {
			return false, "map key is not a string"
		}
		return unfoldSupported(t.Elem(), seen)
	case reflect.Array:
		return false, "array target"
	case reflect.Struct:
		if seen[t] {
			return true, ""
		}
		seen[t] = true
		names := map[string]bool{}
		return structUnfoldSupported(t, seen, names)
	}
	return false, fmt.Sprintf("unsupported kind %v", t.Kind())
}

func structUnfoldSupported(t reflect.Type, seen map[reflect.Type]bool, names map[string]bool) (bool, string) {
	for i := 0; i < t.NumField(); i++ {
		sf := t.Field(i)
		if !exported(sf.Name) {
			continue
		}
		name, omit, _, inline := ParseTag(sf.Tag.Get("struct"))
		if omit {
			continue
		}
		if inline {
			if sf.Type.Kind() != reflect.Struct {
				return false, "inline target field is not a struct"
			}
			if ok, why := structUnfoldSupported(sf.Type, seen, names); !ok {
				return false, why
			}
			continue
		}
		if name == "" {
			name = strings.ToLower(sf.Name)
		}
		if names[name] {
			return false, "duplicate member name " + name
		}
		names[name] = true
		if ok, why := unfoldSupported(sf.Type, seen); !ok {
			return false, why
		}
	}
	return true, ""
}

// UntransferredNonZero returns the name of a field that the mapping does not transfer (unexported
// fields are not inspected; "-" and omit fields) yet is not zero, or "".
func UntransferredNonZero(v reflect.Value) string {
	for v.Kind() == reflect.Ptr || v.Kind() == reflect.Interface {
		if v.IsNil() {
			return ""
		}
		v = v.Elem()
	}
	switch v.Kind() {
	case reflect.Struct:
		t := v.Type()
		for i := 0; i < t.NumField(); i++ {
			sf := t.Field(i)
			if !exported(sf.Name) {
				continue
			}
			_, omit, _, _ := ParseTag(sf.Tag.Get("struct"))
			if omit {
				if !v.Field(i).IsZero() {
					return sf.Name
				}
				continue
			}
			if f := UntransferredNonZero(v.Field(i)); f != "" {
				return sf.Name + "." + f
			}
		}
	case reflect.Slice, reflect.Array:
		for i := 0; i < v.Len(); i++ {
			if f := UntransferredNonZero(v.Index(i)); f != "" {
				return f
			}
		}
	case reflect.Map:
		for _, k := range v.MapKeys() {
			if f := UntransferredNonZero(v.MapIndex(k)); f != "" {
				return f
			}
		}
	}
	return ""
}
