package model

import (
	"fmt"
	"reflect"
	"strings"
)

// UnfoldSupported says whether a target type is within the documented supported kinds for
// unfolding: booleans, strings, every integer and float width, empty interfaces, slices,
// string-keyed maps, structs (inline only for struct-typed fields, member names unique),
// pointers and nestings of these. Everything else must be refused with an error.
func UnfoldSupported(t reflect.Type) (bool, string) {
	return unfoldSupported(t, map[reflect.Type]bool{})
}

func unfoldSupported(t reflect.Type, seen map[reflect.Type]bool) (bool, string) {
	switch t.Kind() {
	case reflect.Bool, reflect.String, reflect.Int, reflect.Int8, reflect.Int16, reflect.Int32, reflect.Int64,
		reflect.Uint, reflect.Uint8, reflect.Uint16, reflect.Uint32, reflect.Uint64, reflect.Float32, reflect.Float64:
		return true, ""
	case reflect.Interface:
		if t.NumMethod() != 0 {
			return false, "non-empty interface target"
		}
		return true, ""
	case reflect.Ptr, reflect.Slice:
		if t.Name() != "" {
			if seen[t] {
				return true, "" // self-referential named type (type L []L)
			}
			seen[t] = true
		}
		return unfoldSupported(t.Elem(), seen)
	case reflect.Map:
		if t.Key().Kind() != reflect.String {
			return false, "map key is not a string"
		}
		if t.Name() != "" {
			if seen[t] {
				return true, "" // type M map[string]M
			}
			seen[t] = true
		}
		return unfoldSupported(t.Elem(), seen)
	case reflect.Array:
		return false, "array target"
	case reflect.Struct:
		if seen[t] {
			return true, ""
		}
		seen[t] = true
		names := map[string]bool{}
		return structUnfoldSupported(t, seen, names)
	}
	return false, fmt.Sprintf("unsupported kind %v", t.Kind())
}

func structUnfoldSupported(t reflect.Type, seen map[reflect.Type]bool, names map[string]bool) (bool, string) {
	for i := 0; i < t.NumField(); i++ {
		sf := t.Field(i)
		if !exported(sf.Name) {
			continue
		}
		name, omit, _, inline := ParseTag(sf.Tag.Get("struct"))
		if omit {
			continue
		}
		if inline {
			if sf.Type.Kind() != reflect.Struct {
				return false, "inline target field is not a struct"
			}
			if ok, why := structUnfoldSupported(sf.Type, seen, names); !ok {
				return false, why
			}
			continue
		}
		if name == "" {
			name = strings.ToLower(sf.Name)
		}
		if names[name] {
			return false, "duplicate member name " + name
		}
		names[name] = true
		if ok, why := unfoldSupported(sf.Type, seen); !ok {
			return false, why
		}
	}
	return true, ""
}

// UntransferredNonZero returns the name of a field that the mapping does not transfer (unexported
// fields are not inspected; "-" and omit fields) yet is not zero, or "".
func UntransferredNonZero(v reflect.Value) string {
	for v.Kind() == reflect.Ptr || v.Kind() == reflect.Interface {
		if v.IsNil() {
			return ""
		}
		v = v.Elem()
	}
	switch v.Kind() {
	case reflect.Struct:
		t := v.Type()
		for i := 0; i < t.NumField(); i++ {
			sf := t.Field(i)
			if !exported(sf.Name) {
				continue
			}
			_, omit, _, _ := ParseTag(sf.Tag.Get("struct"))
			if omit {
				if !v.Field(i).IsZero() {
					return sf.Name
				}
				continue
			}
			if f := UntransferredNonZero(v.Field(i)); f != "" {
				return sf.Name + "." + f
			}
		}
	case reflect.Slice, reflect.Array:
		for i := 0; i < v.Len(); i++ {
			if f := UntransferredNonZero(v.Index(i)); f != "" {
				return f
			}
		}
	case reflect.Map:
		for _, k := range v.MapKeys() {
			if f := UntransferredNonZero(v.MapIndex(k)); f != "" {
				return f
			}
		}
	}
	return ""
}

// RefUnfold is the reference reading of property C13 for one (stream value, typed target)
// pair: it assigns sv to dst (addressable, pre-initialised) the way the statement demands.
// It returns false (with a reason) where the statement makes no promise (shape mismatch, a
// number that does not fit, duplicate members for one field): then only "no crash" applies.
func RefUnfold(sv Value, dst reflect.Value) (bool, string) {
	switch dst.Kind() {
	case reflect.Interface:
		if dst.Type().NumMethod() != 0 {
			return false, "non-empty interface"
		}
		g := generic(sv)
		if g == nil {
			dst.Set(reflect.Zero(dst.Type()))
		} else {
			dst.Set(reflect.ValueOf(g))
		}
		return true, ""
	case reflect.Bool:
		if sv.K != VBool {
			return false, "not a bool"
		}
		dst.SetBool(sv.B)
		return true, ""
	case reflect.String:
		if sv.K != VStr {
			return false, "not a string"
		}
		dst.SetString(sv.S)
		return true, ""
	case reflect.Int, reflect.Int8, reflect.Int16, reflect.Int32, reflect.Int64:
		if sv.K != VInt || sv.Big {
			return false, "not an integer"
		}
		var i int64
		if sv.Neg {
			if sv.Mag > 1<<63 {
				return false, "does not fit"
			}
			i = -int64(sv.Mag-1) - 1
		} else {
			if sv.Mag > 1<<63-1 {
				return false, "does not fit"
			}
			i = int64(sv.Mag)
		}
		if dst.OverflowInt(i) {
			return false, "does not fit"
		}
		dst.SetInt(i)
		return true, ""
	case reflect.Uint, reflect.Uint8, reflect.Uint16, reflect.Uint32, reflect.Uint64:
		if sv.K != VInt || sv.Big || (sv.Neg && sv.Mag != 0) {
			return false, "not a non-negative integer"
		}
		if dst.OverflowUint(sv.Mag) {
			return false, "does not fit"
		}
		dst.SetUint(sv.Mag)
		return true, ""
	case reflect.Float32, reflect.Float64:
		var f float64
		switch sv.K {
		case VF64:
			f = f64frombits(sv.Bits)
		case VF32:
			f = float64(f32frombits(uint32(sv.Bits)))
		case VInt:
			if sv.Big || sv.Mag > 1<<53 {
				return false, "integer not exactly representable"
			}
			f = float64(sv.Mag)
			if sv.Neg {
				f = -f
			}
		default:
			return false, "not a number"
		}
		if dst.Kind() == reflect.Float32 && float64(float32(f)) != f && f == f {
			return false, "does not fit float32"
		}
		dst.SetFloat(f)
		return true, ""
	case reflect.Ptr:
		if sv.K == VNull {
			dst.Set(reflect.Zero(dst.Type()))
			return true, ""
		}
		p := reflect.New(dst.Type().Elem())
		if ok, why := RefUnfold(sv, p.Elem()); !ok {
			return false, why
		}
		dst.Set(p)
		return true, ""
	case reflect.Slice:
		if sv.K != VArr {
			return false, "not an array"
		}
		s := reflect.MakeSlice(dst.Type(), len(sv.Elems), len(sv.Elems))
		for i, e := range sv.Elems {
			if ok, why := RefUnfold(e, s.Index(i)); !ok {
				return false, why
			}
		}
		dst.Set(s)
		return true, ""
	case reflect.Map:
		if sv.K != VObj || dst.Type().Key().Kind() != reflect.String {
			return false, "not an object / no string keys"
		}
		if dst.IsNil() {
			dst.Set(reflect.MakeMap(dst.Type()))
		}
		for i, e := range sv.Elems {
			el := reflect.New(dst.Type().Elem()).Elem()
			if ok, why := RefUnfold(e, el); !ok {
				return false, why
			}
			dst.SetMapIndex(reflect.ValueOf(sv.Keys[i]).Convert(dst.Type().Key()), el)
		}
		return true, ""
	case reflect.Struct:
		if sv.K != VObj {
			return false, "not an object"
		}
		fields := map[string]reflect.Value{}
		if !collectFields(dst, fields) {
			return false, "unsupported struct layout"
		}
		seen := map[string]bool{}
		for i, e := range sv.Elems {
			f, ok := fields[sv.Keys[i]]
			if !ok {
				continue // unknown member: skipped with its whole value
			}
			if seen[sv.Keys[i]] {
				return false, "member delivered twice"
			}
			seen[sv.Keys[i]] = true
			if ok, why := RefUnfold(e, f); !ok {
				return false, why
			}
		}
		return true, ""
	}
	return false, "unsupported target kind"
}

func collectFields(v reflect.Value, out map[string]reflect.Value) bool {
	t := v.Type()
	for i := 0; i < t.NumField(); i++ {
		sf := t.Field(i)
		if !exported(sf.Name) {
			continue
		}
		name, omit, _, inline := ParseTag(sf.Tag.Get("struct"))
		if omit {
			continue
		}
		if inline {
			if sf.Type.Kind() != reflect.Struct || !collectFields(v.Field(i), out) {
				return false
			}
			continue
		}
		if name == "" {
			name = strings.ToLower(sf.Name)
		}
		if _, dup := out[name]; dup {
			return false
		}
		out[name] = v.Field(i)
	}
	return true
}

func generic(sv Value) interface{} {
	switch sv.K {
	case VNull:
		return nil
	case VBool:
		return sv.B
	case VStr:
		return sv.S
	case VInt:
		if sv.Neg {
			return -int64(sv.Mag-1) - 1
		}
		if sv.Mag > 1<<63-1 {
			return sv.Mag
		}
		return int64(sv.Mag)
	case VF32:
		return f32frombits(uint32(sv.Bits))
	case VF64:
		return f64frombits(sv.Bits)
	case VArr:
		out := make([]interface{}, 0, len(sv.Elems))
		for _, e := range sv.Elems {
			out = append(out, generic(e))
		}
		return out
	case VObj:
		out := map[string]interface{}{}
		for i, e := range sv.Elems {
			out[sv.Keys[i]] = generic(e)
		}
		return out
	}
	return nil
}

// SameGo compares two Go values of the same static type: nil and empty slices/maps are
// identified, the contents of interfaces are compared as values of the data model (so generic
// data may come in any Go representation), floats by bits, everything else structurally.
// It returns the path of the first difference.
func SameGo(a, b reflect.Value) (bool, string) {
	if a.Type() != b.Type() {
		return false, fmt.Sprintf("types %v / %v", a.Type(), b.Type())
	}
	switch a.Kind() {
	case reflect.Interface:
		if a.IsNil() || b.IsNil() {
			if a.IsNil() != b.IsNil() {
				return false, "nil interface"
			}
			return true, ""
		}
		fa, fb := RefFold(a.Interface()), RefFold(b.Interface())
		if fa.Refuse || fb.Refuse || !Equal(fa.V, fb.V, Exact) {
			return false, fmt.Sprintf("interface holds %s / %s", fa.V, fb.V)
		}
		return true, ""
	case reflect.Ptr:
		if a.IsNil() || b.IsNil() {
			if a.IsNil() != b.IsNil() {
				return false, "nil pointer"
			}
			return true, ""
		}
		return SameGo(a.Elem(), b.Elem())
	case reflect.Slice, reflect.Array:
		if a.Len() != b.Len() {
			return false, fmt.Sprintf("len %d / %d", a.Len(), b.Len())
		}
		for i := 0; i < a.Len(); i++ {
			if ok, p := SameGo(a.Index(i), b.Index(i)); !ok {
				return false, fmt.Sprintf("[%d].%s", i, p)
			}
		}
		return true, ""
	case reflect.Map:
		if a.Len() != b.Len() {
			return false, fmt.Sprintf("map len %d / %d", a.Len(), b.Len())
		}
		for _, k := range a.MapKeys() {
			bv := b.MapIndex(k)
			if !bv.IsValid() {
				return false, fmt.Sprintf("key %v missing", k)
			}
			if ok, p := SameGo(a.MapIndex(k), bv); !ok {
				return false, fmt.Sprintf("[%v].%s", k, p)
			}
		}
		return true, ""
	case reflect.Struct:
		for i := 0; i < a.NumField(); i++ {
			if ok, p := SameGo(access(a.Field(i)), access(b.Field(i))); !ok {
				return false, a.Type().Field(i).Name + "." + p
			}
		}
		return true, ""
	case reflect.Float32, reflect.Float64:
		if f64bits(a.Float()) != f64bits(b.Float()) {
			return false, fmt.Sprintf("%v / %v", a.Float(), b.Float())
		}
		return true, ""
	case reflect.String:
		return a.String() == b.String(), fmt.Sprintf("%q / %q", a.String(), b.String())
	case reflect.Bool:
		return a.Bool() == b.Bool(), "bool"
	case reflect.Int, reflect.Int8, reflect.Int16, reflect.Int32, reflect.Int64:
		return a.Int() == b.Int(), fmt.Sprintf("%d / %d", a.Int(), b.Int())
	case reflect.Uint, reflect.Uint8, reflect.Uint16, reflect.Uint32, reflect.Uint64, reflect.Uintptr:
		return a.Uint() == b.Uint(), fmt.Sprintf("%d / %d", a.Uint(), b.Uint())
	}
	return true, ""
}
