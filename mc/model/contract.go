package model

import (
	"fmt"

	structform "github.com/elastic/go-structform"
)

// CheckContract verifies the Visitor contract on a recorded stream (basic events only).
// complete: the producer claims to have finished (all containers must be closed).
// single: the producer reports exactly one top-level value.
// It returns "" if the contract holds, otherwise the violated rule and the event index.
func CheckContract(evs []Event, complete, single bool) (string, int) {
	type frame struct {
		obj     bool
		len     int
		bt      structform.BaseType
		count   int
		haveKey bool
	}
	var stack []frame
	top := 0
	value := func(i int, k Kind) string {
		if len(stack) == 0 {
			top++
			if single && top > 1 {
				return "events-after-top-level-value"
			}
			return ""
		}
		f := &stack[len(stack)-1]
		if f.obj {
			if !f.haveKey {
				return "value-without-key"
			}
			f.haveKey = false
		}
		f.count++
		if f.len >= 0 && f.count > f.len {
			return "more-elements-than-announced"
		}
		if !typeOK(f.bt, k) {
			return fmt.Sprintf("element-type-mismatch:%v-in-%v", k, f.bt)
		}
		return ""
	}
	for i, e := range evs {
		rule := ""
		switch e.K {
		case KObjStart, KArrStart:
			rule = value(i, e.K)
			stack = append(stack, frame{obj: e.K == KObjStart, len: e.Len, bt: e.BT})
			if e.Len < -1 {
				rule = "negative-length-announced"
			}
		case KObjEnd, KArrEnd:
			if len(stack) == 0 {
				return "finish-without-start", i
			}
			f := stack[len(stack)-1]
			if f.obj != (e.K == KObjEnd) {
				return "mismatching-finish", i
			}
			if f.haveKey {
				return "key-without-value", i
			}
			if f.len >= 0 && f.count != f.len {
				return "fewer-elements-than-announced", i
			}
			stack = stack[:len(stack)-1]
		case KKey:
			if len(stack) == 0 || !stack[len(stack)-1].obj {
				return "key-outside-object", i
			}
			f := &stack[len(stack)-1]
			if f.haveKey {
				return "two-keys", i
			}
			f.haveKey = true
		default:
			if !e.K.IsScalar() {
				return "extended-event-in-basic-stream", i
			}
			rule = value(i, e.K)
		}
		if rule != "" {
			return rule, i
		}
	}
	if complete && len(stack) != 0 {
		return "unbalanced-at-end", len(evs)
	}
	return "", -1
}

func typeOK(bt structform.BaseType, k Kind) bool {
	switch bt {
	case structform.AnyType:
		return true
	case structform.ByteType, structform.Uint8Type:
		return k == KByte || k == KUint8
	case structform.StringType:
		return k == KString
	case structform.BoolType:
		return k == KBool
	case structform.ZeroType:
		return k == KNil
	case structform.IntType:
		return k == KInt
	case structform.Int8Type:
		return k == KInt8
	case structform.Int16Type:
		return k == KInt16
	case structform.Int32Type:
		return k == KInt32
	case structform.Int64Type:
		return k == KInt64
	case structform.UintType:
		return k == KUint
	case structform.Uint16Type:
		return k == KUint16
	case structform.Uint32Type:
		return k == KUint32
	case structform.Uint64Type:
		return k == KUint64
	case structform.Float32Type:
		return k == KFloat32
	case structform.Float64Type:
		return k == KFloat64
	}
	return false
}
