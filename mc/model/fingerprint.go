package model

import (
	"fmt"
	"reflect"
	"sort"
	"strings"
	"unsafe"
)

// FPOpts controls the fingerprint abstraction.
type FPOpts struct {
	// Skip lists struct field names that are not part of the compared state
	// (caches that legitimately differ between a fresh and a used instance).
	Skip map[string]bool
	// DepthsOnly renders only the lengths of slices (stack depths, token and collect buffers),
	// found anywhere below the root. This is the "every internal nesting stack is back at its idle
	// depth" reading of C17: scalars, strings, maps and the elements of slices are left to the
	// behavioural probes, so that a refactoring which adds a scratch field or a cache does not
	// change the idle picture.
	DepthsOnly bool
}

// Fingerprint renders the private state of an instance (pointer to struct) by reflection.
//
// Abstraction (DESIGN §2.2): slices contribute their live part [:len] (capacity and bytes
// beyond len are write-before-read storage); fixed-size arrays are inline backing storage for
// those slices and are skipped; interface fields contribute only their dynamic type (visitor,
// writer, current unfolder state); funcs are skipped; maps contribute their sorted keys;
// raw pointers contribute nil/non-nil; reflect.Value contributes its type.
func Fingerprint(root interface{}, o FPOpts) string {
	var sb strings.Builder
	v := reflect.ValueOf(root)
	if v.Kind() != reflect.Ptr {
		panic("Fingerprint needs a pointer")
	}
	fpWalk(&sb, v.Elem(), o, map[unsafe.Pointer]bool{}, 0)
	return sb.String()
}

var reflectValueType = reflect.TypeOf(reflect.Value{})
var reflectTypeType = reflect.TypeOf((*reflect.Type)(nil)).Elem()

func access(v reflect.Value) reflect.Value {
	if v.CanInterface() || !v.CanAddr() {
		return v
	}
	return reflect.NewAt(v.Type(), unsafe.Pointer(v.UnsafeAddr())).Elem()
}

func fpWalk(sb *strings.Builder, v reflect.Value, o FPOpts, seen map[unsafe.Pointer]bool, depth int) {
	if depth > 12 {
		sb.WriteString("…")
		return
	}
	if !v.IsValid() {
		sb.WriteString("invalid")
		return
	}
	if v.Type() == reflectValueType {
		if o.DepthsOnly {
			return
		}
		rv := access(v)
		if rv.CanInterface() {
			if x, ok := rv.Interface().(reflect.Value); ok {
				if x.IsValid() {
					fmt.Fprintf(sb, "rv<%v>", x.Type())
				} else {
					sb.WriteString("rv<invalid>")
				}
				return
			}
		}
		sb.WriteString("rv")
		return
	}
	switch v.Kind() {
	case reflect.Struct:
		sb.WriteByte('{')
		t := v.Type()
		for i := 0; i < t.NumField(); i++ {
			f := t.Field(i)
			if o.Skip[f.Name] || o.Skip[t.Name()+"."+f.Name] {
				continue
			}
			switch f.Type.Kind() {
			case reflect.Array, reflect.Func:
				continue
			}
			sb.WriteString(f.Name)
			sb.WriteByte('=')
			fpWalk(sb, access(v.Field(i)), o, seen, depth+1)
			sb.WriteByte(' ')
		}
		sb.WriteByte('}')
	case reflect.Slice:
		if o.DepthsOnly {
			fmt.Fprintf(sb, "len%d", v.Len())
			return
		}
		if v.Type().Elem().Kind() == reflect.Uint8 {
			fmt.Fprintf(sb, "b%d:%x", v.Len(), v.Bytes())
			return
		}
		fmt.Fprintf(sb, "[%d:", v.Len())
		for i := 0; i < v.Len(); i++ {
			fpWalk(sb, access(v.Index(i)), o, seen, depth+1)
			sb.WriteByte(',')
		}
		sb.WriteByte(']')
	case reflect.Array, reflect.Func, reflect.Chan:
	case reflect.Ptr:
		if v.IsNil() {
			sb.WriteString("nil")
			return
		}
		p := unsafe.Pointer(v.Pointer())
		if seen[p] {
			sb.WriteString("^")
			return
		}
		seen[p] = true
		sb.WriteByte('&')
		fpWalk(sb, v.Elem(), o, seen, depth+1)
	case reflect.Interface:
		if o.DepthsOnly {
			return
		}
		if v.IsNil() {
			sb.WriteString("nil")
			return
		}
		if v.Type() == reflectTypeType || v.Elem().Type().Implements(reflectTypeType) {
			sb.WriteString("type")
			return
		}
		fmt.Fprintf(sb, "<%v>", v.Elem().Type())
	case reflect.Map:
		if o.DepthsOnly {
			return
		}
		keys := make([]string, 0, v.Len())
		for _, k := range v.MapKeys() {
			keys = append(keys, keyString(k))
		}
		sort.Strings(keys)
		fmt.Fprintf(sb, "map%d%v", v.Len(), keys)
	case reflect.UnsafePointer, reflect.Uintptr, reflect.String, reflect.Bool, reflect.Int, reflect.Int8, reflect.Int16, reflect.Int32, reflect.Int64,
		reflect.Uint, reflect.Uint8, reflect.Uint16, reflect.Uint32, reflect.Uint64, reflect.Float32, reflect.Float64:
		if o.DepthsOnly {
			return
		}
		fpScalar(sb, v)
	}
}

func fpScalar(sb *strings.Builder, v reflect.Value) {
	switch v.Kind() {
	case reflect.UnsafePointer, reflect.Uintptr:
		if v.Kind() == reflect.UnsafePointer && v.Pointer() == 0 {
			sb.WriteString("p0")
		} else {
			sb.WriteString("p")
		}
	case reflect.String:
		fmt.Fprintf(sb, "%q", v.String())
	case reflect.Bool:
		fmt.Fprintf(sb, "%v", v.Bool())
	case reflect.Int, reflect.Int8, reflect.Int16, reflect.Int32, reflect.Int64:
		fmt.Fprintf(sb, "%d", v.Int())
	case reflect.Uint, reflect.Uint8, reflect.Uint16, reflect.Uint32, reflect.Uint64:
		fmt.Fprintf(sb, "%d", v.Uint())
	case reflect.Float32, reflect.Float64:
		fmt.Fprintf(sb, "%v", v.Float())
	default:
		fmt.Fprintf(sb, "?%v", v.Kind())
	}
}

// keyString renders a map key; reflect.Type keys are rendered by their (process-stable) identity.
func keyString(k reflect.Value) string {
	switch k.Kind() {
	case reflect.String:
		return k.String()
	case reflect.Interface:
		if k.IsNil() {
			return "nil"
		}
		return keyString(k.Elem())
	case reflect.Ptr:
		return fmt.Sprintf("@%x", k.Pointer())
	case reflect.Struct:
		var parts []string
		for i := 0; i < k.NumField(); i++ {
			parts = append(parts, keyString(k.Field(i)))
		}
		return "{" + strings.Join(parts, ",") + "}"
	case reflect.Bool:
		return fmt.Sprint(k.Bool())
	case reflect.Int, reflect.Int8, reflect.Int16, reflect.Int32, reflect.Int64:
		return fmt.Sprint(k.Int())
	case reflect.Uint, reflect.Uint8, reflect.Uint16, reflect.Uint32, reflect.Uint64:
		return fmt.Sprint(k.Uint())
	}
	return "?" + k.Kind().String()
}
