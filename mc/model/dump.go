package model

import (
	"fmt"
	"math"
	"reflect"
	"sort"
	"strings"
)

// Dump renders a Go value canonically: pointers are followed, map members sorted by key,
// interfaces show their dynamic type, nil and empty slices/maps are distinguished, floats by bits.
func Dump(v interface{}) (out string) {
	var sb strings.Builder
	defer func() {
		if r := recover(); r != nil {
			out = sb.String() + fmt.Sprintf("<corrupt value: %v>", r)
		}
	}()
	dump(&sb, reflect.ValueOf(v), 0)
	return sb.String()
}

func dump(sb *strings.Builder, v reflect.Value, depth int) {
	if depth > 20 {
		sb.WriteString("…")
		return
	}
	if !v.IsValid() {
		sb.WriteString("<nil>")
		return
	}
	switch v.Kind() {
	case reflect.Ptr:
		if v.IsNil() {
			sb.WriteString("nil")
			return
		}
		sb.WriteByte('&')
		dump(sb, v.Elem(), depth+1)
	case reflect.Interface:
		if v.IsNil() {
			sb.WriteString("<nil>")
			return
		}
		fmt.Fprintf(sb, "(%v)", v.Elem().Type())
		dump(sb, v.Elem(), depth+1)
	case reflect.Struct:
		sb.WriteByte('{')
		for i := 0; i < v.NumField(); i++ {
			if i > 0 {
				sb.WriteByte(' ')
			}
			sb.WriteString(v.Type().Field(i).Name)
			sb.WriteByte(':')
			dump(sb, access(v.Field(i)), depth+1)
		}
		sb.WriteByte('}')
	case reflect.Slice:
		if v.IsNil() {
			sb.WriteString("nil[]")
			return
		}
		fallthrough
	case reflect.Array:
		sb.WriteByte('[')
		for i := 0; i < v.Len(); i++ {
			if i > 0 {
				sb.WriteByte(' ')
			}
			dump(sb, v.Index(i), depth+1)
		}
		sb.WriteByte(']')
	case reflect.Map:
		if v.IsNil() {
			sb.WriteString("nilmap")
			return
		}
		type kv struct {
			k string
			v reflect.Value
		}
		var kvs []kv
		for _, k := range v.MapKeys() {
			kvs = append(kvs, kv{fmt.Sprintf("%q", fmt.Sprint(k.Interface())), v.MapIndex(k)})
		}
		sort.Slice(kvs, func(i, j int) bool { return kvs[i].k < kvs[j].k })
		sb.WriteString("map[")
		for i, p := range kvs {
			if i > 0 {
				sb.WriteByte(' ')
			}
			sb.WriteString(p.k)
			sb.WriteByte(':')
			dump(sb, p.v, depth+1)
		}
		sb.WriteByte(']')
	case reflect.String:
		fmt.Fprintf(sb, "%q", v.String())
	case reflect.Float32:
		fmt.Fprintf(sb, "f32:%#x", math.Float32bits(float32(v.Float())))
	case reflect.Float64:
		fmt.Fprintf(sb, "f64:%#x", math.Float64bits(v.Float()))
	case reflect.Bool:
		fmt.Fprintf(sb, "%v", v.Bool())
	case reflect.Int, reflect.Int8, reflect.Int16, reflect.Int32, reflect.Int64:
		fmt.Fprintf(sb, "%d", v.Int())
	case reflect.Uint, reflect.Uint8, reflect.Uint16, reflect.Uint32, reflect.Uint64, reflect.Uintptr:
		fmt.Fprintf(sb, "%du", v.Uint())
	default:
		fmt.Fprintf(sb, "<%v>", v.Kind())
	}
}
