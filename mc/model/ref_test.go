package model

import (
	"bytes"
	stdjson "encoding/json"
	"testing"
)

func TestRefJSONBasics(t *testing.T) {
	cases := []struct {
		in   string
		st   Status
		want string
	}{
		{`{"a":[1,2.5,"x\né😀"],"b":null}`, Complete, ``},
		{`18446744073709551615`, Complete, `18446744073709551615`},
		{`-9223372036854775808`, Complete, `-9223372036854775808`},
		{`-`, Truncated, ``}, {`1.`, Truncated, ``}, {`1e`, Truncated, ``}, {`[1,`, Truncated, ``}, {`"ab`, Truncated, ``},
		{`nul`, Truncated, ``}, {`"\u12`, Truncated, ``},
		{`[1,]`, Malformed, ``}, {`{"a" 1}`, Malformed, ``}, {`01`, Complete, ``},
		{`1 2 [3]`, Complete, ``},
		{`"\ud800"`, Complete, `"\ufffd"`}, {`"\ud800A"`, Complete, `"\ufffdA"`},
	}
	for _, c := range cases {
		r := RefJSON([]byte(c.in))
		if r.Status != c.st {
			t.Errorf("%q: status %v want %v", c.in, r.Status, c.st)
		}
		if c.want != "" && (len(r.Values) != 1 || r.Values[0].String() != c.want) {
			t.Errorf("%q: got %v want %s", c.in, r.Values, c.want)
		}
		if c.st == Complete && len(r.Values) == 1 {
			var x interface{}
			dec := stdjson.NewDecoder(bytes.NewReader([]byte(c.in)))
			if err := dec.Decode(&x); err != nil {
				t.Errorf("%q: encoding/json disagrees: %v", c.in, err)
			}
		}
	}
}

func TestRefCBORBasics(t *testing.T) {
	cases := []struct {
		in   []byte
		st   Status
		want string
	}{
		{[]byte{0x38, 0xC7}, Complete, "-200"},
		{[]byte{0x3B, 0xFF, 0xFF, 0xFF, 0xFF, 0xFF, 0xFF, 0xFF, 0xFF}, Unsupported, ""},
		{[]byte{0x3B, 0x7F, 0xFF, 0xFF, 0xFF, 0xFF, 0xFF, 0xFF, 0xFF}, Complete, "-9223372036854775808"},
		{[]byte{0xC0, 0x01}, Unsupported, ""}, {[]byte{0xC0}, Truncated, ""},
		{[]byte{0x1C, 0x01}, Malformed, ""},
		{[]byte{0x9F, 0x01, 0xA1, 0x60, 0xF5, 0xFF}, Complete, `[1,{"":true}]`},
		{[]byte{0x82, 0x01}, Truncated, ""},
		{[]byte{0x42, 1, 2}, Complete, "[1,2]"},
		{[]byte{0xA1, 0x01, 0x02}, Unsupported, ""},
		{[]byte{0xF9, 0, 0}, Unsupported, ""},
		{[]byte{0x7F, 0x61, 0x61, 0xFF}, Unsupported, ""},
	}
	for _, c := range cases {
		r := RefCBOR(c.in)
		if r.Status != c.st {
			t.Errorf("%x: status %v (%s) want %v", c.in, r.Status, r.Feature, c.st)
		}
		if c.want != "" && (len(r.Values) != 1 || r.Values[0].String() != c.want) {
			t.Errorf("%x: got %v want %s", c.in, r.Values, c.want)
		}
	}
}

func TestRefUBJBasics(t *testing.T) {
	cases := []struct {
		in   string
		st   Status
		want string
	}{
		{"[$i#i\x02\x01\x02", Complete, "[1,2]"},
		{"[$[#i\x02$i#i\x01\x05i\x07]", Complete, "[[5],[7]]"},
		{"{#i\x01i\x01aZ", Complete, `{"a":null}`},
		{"[NiN\x01", Malformed, ""},
		{"[Ni\x01N]", Complete, "[1]"},
		{"[#S\x01", Malformed, ""},
		{"[$Z#i\x02", Complete, "[null,null]"},
		{"HU\x03123", Complete, `"123"`},
		{"SI\x00\x01a", Complete, `"a"`},
		{"[", Truncated, ""}, {"[i", Truncated, ""}, {"Si\x02a", Truncated, ""},
		{"{$d#U\x01i\x01k\x3f\x00\x00\x00", Complete, ""},
		{"Cx", Complete, "120"},
	}
	for _, c := range cases {
		r := RefUBJSON([]byte(c.in))
		if r.Status != c.st {
			t.Errorf("%q: status %v (%s) want %v", c.in, r.Status, r.Feature, c.st)
		}
		if c.want != "" && (len(r.Values) != 1 || r.Values[0].String() != c.want) {
			t.Errorf("%q: got %v want %s", c.in, r.Values, c.want)
		}
	}
}
