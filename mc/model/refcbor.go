package model

import (
	"encoding/binary"
	"fmt"

	structform "github.com/elastic/go-structform"
)

// Status is the verdict of a reference decoder.
type Status int

const (
	Complete    Status = iota // a sequence of zero or more complete values
	Truncated                 // a proper prefix of some valid document, ending inside a value
	Unsupported               // well-formed, but uses a feature outside the library's subset
	Malformed                 // not a prefix of any valid document
)

func (s Status) String() string {
	return [...]string{"complete", "truncated", "unsupported", "malformed"}[s]
}

// Ref is the result of a reference decoder.
type Ref struct {
	Status  Status
	Values  []Value // the complete values decoded before the verdict
	Ends    []int   // end offset of each complete value
	Feature string  // for Unsupported
	Offset  int     // offset of the problem
	Nodes   int     // RefUBJSON: values decoded, including those inside an incomplete container
}

type refErr struct {
	st      Status
	feature string
	off     int
}

// RefCBOR decodes a sequence of RFC 7049 data items. It understands the full format and says
// which feature is outside the library's subset (tags, half floats, indefinite strings, non-text
// map keys, negative integers below -2^63, simple values other than false/true/null/undefined).
func RefCBOR(b []byte) (r Ref) {
	d := &cborDec{b: b}
	for d.p < len(b) {
		v, e := d.item(0)
		if e != nil {
			r.Status, r.Feature, r.Offset = e.st, e.feature, e.off
			return
		}
		r.Values = append(r.Values, v)
		r.Ends = append(r.Ends, d.p)
	}
	return
}

type cborDec struct {
	b []byte
	p int
}

func (d *cborDec) need(n int) *refErr {
	if n < 0 || d.p+n > len(d.b) || d.p+n < d.p {
		return &refErr{st: Truncated, off: len(d.b)}
	}
	return nil
}

// head reads an initial byte and its argument. indef is true for additional info 31.
func (d *cborDec) head() (major, ai byte, arg uint64, indef bool, e *refErr) {
	if e = d.need(1); e != nil {
		return
	}
	ib := d.b[d.p]
	d.p++
	major, ai = ib>>5, ib&0x1f
	switch {
	case ai < 24:
		arg = uint64(ai)
	case ai == 24:
		if e = d.need(1); e != nil {
			return
		}
		arg = uint64(d.b[d.p])
		d.p++
	case ai == 25:
		if e = d.need(2); e != nil {
			return
		}
		arg = uint64(binary.BigEndian.Uint16(d.b[d.p:]))
		d.p += 2
	case ai == 26:
		if e = d.need(4); e != nil {
			return
		}
		arg = uint64(binary.BigEndian.Uint32(d.b[d.p:]))
		d.p += 4
	case ai == 27:
		if e = d.need(8); e != nil {
			return
		}
		arg = binary.BigEndian.Uint64(d.b[d.p:])
		d.p += 8
	case ai == 31:
		indef = true
	default:
		e = &refErr{st: Malformed, feature: fmt.Sprintf("reserved additional info %d", ai), off: d.p - 1}
	}
	return
}

func (d *cborDec) item(depth int) (Value, *refErr) {
	start := d.p
	major, ai, arg, indef, e := d.head()
	if e != nil {
		return Value{}, e
	}
	unsupported := func(f string) (Value, *refErr) {
		return Value{}, &refErr{st: Unsupported, feature: f, off: start}
	}
	switch major {
	case 0:
		if indef {
			return Value{}, &refErr{st: Malformed, feature: "indefinite integer", off: start}
		}
		return UintV(arg), nil
	case 1:
		if indef {
			return Value{}, &refErr{st: Malformed, feature: "indefinite integer", off: start}
		}
		if arg > 1<<63-1 {
			return unsupported("negative integer below -2^63")
		}
		return NegV(arg + 1), nil
	case 2, 3:
		if indef {
			// skip the chunks to stay well-formed, then report
			for {
				if e := d.need(1); e != nil {
					return Value{}, e
				}
				if d.b[d.p] == 0xff {
					d.p++
					break
				}
				m2, _, a2, in2, e := d.head()
				if e != nil {
					return Value{}, e
				}
				if m2 != major || in2 {
					return Value{}, &refErr{st: Malformed, feature: "bad chunk in indefinite string", off: d.p}
				}
				if a2 > uint64(len(d.b)) {
					return Value{}, &refErr{st: Truncated, off: len(d.b)}
				}
				if e := d.need(int(a2)); e != nil {
					return Value{}, e
				}
				d.p += int(a2)
			}
			return unsupported("indefinite-length string")
		}
		if arg > uint64(len(d.b)) {
			return Value{}, &refErr{st: Truncated, off: len(d.b)}
		}
		if e := d.need(int(arg)); e != nil {
			return Value{}, e
		}
		s := d.b[d.p : d.p+int(arg)]
		d.p += int(arg)
		if major == 3 {
			return StrV(string(s)), nil
		}
		v := Value{K: VArr, Len: len(s), BT: structform.ByteType}
		for _, c := range s {
			v.Elems = append(v.Elems, UintV(uint64(c)))
		}
		return v, nil
	case 4:
		v := Value{K: VArr, Len: -1}
		if !indef {
			v.Len = clampLen(arg)
		}
		for i := uint64(0); indef || i < arg; i++ {
			if indef {
				if e := d.need(1); e != nil {
					return Value{}, e
				}
				if d.b[d.p] == 0xff {
					d.p++
					break
				}
			}
			el, e := d.item(depth + 1)
			if e != nil {
				return Value{}, e
			}
			v.Elems = append(v.Elems, el)
		}
		return v, nil
	case 5:
		v := Value{K: VObj, Len: -1}
		if !indef {
			v.Len = clampLen(arg)
		}
		for i := uint64(0); indef || i < arg; i++ {
			if indef {
				if e := d.need(1); e != nil {
					return Value{}, e
				}
				if d.b[d.p] == 0xff {
					d.p++
					break
				}
			}
			kstart := d.p
			if e := d.need(1); e != nil {
				return Value{}, e
			}
			if d.b[d.p]>>5 != 3 {
				// a non-text key: make sure it is well-formed before calling it unsupported
				if _, e := d.item(depth + 1); e != nil && e.st != Unsupported {
					return Value{}, e
				}
				return Value{}, &refErr{st: Unsupported, feature: "non-text map key", off: kstart}
			}
			k, e := d.item(depth + 1)
			if e != nil {
				return Value{}, e
			}
			el, e := d.item(depth + 1)
			if e != nil {
				return Value{}, e
			}
			v.Keys = append(v.Keys, k.S)
			v.Elems = append(v.Elems, el)
		}
		return v, nil
	case 6:
		if indef {
			return Value{}, &refErr{st: Malformed, feature: "indefinite tag", off: start}
		}
		if _, e := d.item(depth + 1); e != nil && e.st != Unsupported {
			return Value{}, e
		}
		return unsupported("tag")
	default: // 7
		switch {
		case indef:
			return Value{}, &refErr{st: Malformed, feature: "unexpected break", off: start}
		case ai == 20:
			return BoolV(false), nil
		case ai == 21:
			return BoolV(true), nil
		case ai == 22, ai == 23:
			return NullV(), nil
		case ai == 25:
			return unsupported("half float")
		case ai == 26:
			return F32V(uint32(arg)), nil
		case ai == 27:
			return F64V(arg), nil
		case ai == 24 && arg < 32:
			return Value{}, &refErr{st: Malformed, feature: "two-byte simple value below 32", off: start}
		default:
			return unsupported("simple value")
		}
	}
}

func clampLen(u uint64) int {
	if u > 1<<62 {
		return 1 << 62
	}
	return int(u)
}
