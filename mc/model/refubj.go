package model

import (
	"encoding/binary"
	"fmt"

	structform "github.com/elastic/go-structform"
)

// RefUBJSON decodes a sequence of UBJSON (draft 12) values: all scalar markers, no-op, char,
// high-precision numbers (delivered as their decimal string), strings with any integer length
// marker, and plain / counted / typed-and-counted containers of any element type, including
// containers of containers.
//
// Mapping to the value model (the library's data model): char -> integer of the byte,
// int8..int64 / uint8 -> integer, H -> string.
func RefUBJSON(b []byte) (r Ref) {
	d := &ubjDec{b: b}
	defer func() { r.Nodes = d.nodes }()
	for d.p < len(b) {
		// no-ops between top-level values are skipped
		if b[d.p] == 'N' {
			d.p++
			continue
		}
		v, e := d.value()
		if e != nil {
			r.Status, r.Feature, r.Offset = e.st, e.feature, e.off
			return
		}
		r.Values = append(r.Values, v)
		r.Ends = append(r.Ends, d.p)
	}
	return
}

type ubjDec struct {
	b     []byte
	p     int
	nodes int // values decoded so far, including those inside an incomplete container
}

func (d *ubjDec) need(n int) *refErr {
	if n < 0 || d.p+n > len(d.b) || d.p+n < d.p {
		return &refErr{st: Truncated, off: len(d.b)}
	}
	return nil
}

func (d *ubjDec) malformed(f string) *refErr { return &refErr{st: Malformed, feature: f, off: d.p} }

func (d *ubjDec) value() (Value, *refErr) {
	if e := d.need(1); e != nil {
		return Value{}, e
	}
	m := d.b[d.p]
	d.p++
	return d.payload(m)
}

// integer reads an integer payload for marker m (marker already consumed).
func (d *ubjDec) integer(m byte) (int64, bool, *refErr) {
	switch m {
	case 'i':
		if e := d.need(1); e != nil {
			return 0, true, e
		}
		v := int64(int8(d.b[d.p]))
		d.p++
		return v, true, nil
	case 'U':
		if e := d.need(1); e != nil {
			return 0, true, e
		}
		v := int64(d.b[d.p])
		d.p++
		return v, true, nil
	case 'I':
		if e := d.need(2); e != nil {
			return 0, true, e
		}
		v := int64(int16(binary.BigEndian.Uint16(d.b[d.p:])))
		d.p += 2
		return v, true, nil
	case 'l':
		if e := d.need(4); e != nil {
			return 0, true, e
		}
		v := int64(int32(binary.BigEndian.Uint32(d.b[d.p:])))
		d.p += 4
		return v, true, nil
	case 'L':
		if e := d.need(8); e != nil {
			return 0, true, e
		}
		v := int64(binary.BigEndian.Uint64(d.b[d.p:]))
		d.p += 8
		return v, true, nil
	}
	return 0, false, nil
}

// length reads marker + integer used as a length.
func (d *ubjDec) length() (int, *refErr) {
	if e := d.need(1); e != nil {
		return 0, e
	}
	m := d.b[d.p]
	d.p++
	n, ok, e := d.integer(m)
	if e != nil {
		return 0, e
	}
	if !ok {
		d.p--
		return 0, d.malformed(fmt.Sprintf("bad length marker %q", m))
	}
	if n < 0 {
		return 0, d.malformed("negative length")
	}
	return int(n), nil
}

func (d *ubjDec) str() (string, *refErr) {
	n, e := d.length()
	if e != nil {
		return "", e
	}
	if e := d.need(n); e != nil {
		return "", e
	}
	s := string(d.b[d.p : d.p+n])
	d.p += n
	return s, nil
}

func isUBJValueMarker(m byte) bool {
	switch m {
	case 'Z', 'N', 'T', 'F', 'i', 'U', 'I', 'l', 'L', 'd', 'D', 'H', 'C', 'S', '[', '{':
		return true
	}
	return false
}

// payload decodes the value whose marker m has been consumed.
func (d *ubjDec) payload(m byte) (Value, *refErr) {
	d.nodes++
	switch m {
	case 'Z':
		return NullV(), nil
	case 'T':
		return BoolV(true), nil
	case 'F':
		return BoolV(false), nil
	case 'i', 'U', 'I', 'l', 'L':
		n, _, e := d.integer(m)
		if e != nil {
			return Value{}, e
		}
		return IntV(n), nil
	case 'd':
		if e := d.need(4); e != nil {
			return Value{}, e
		}
		v := F32V(binary.BigEndian.Uint32(d.b[d.p:]))
		d.p += 4
		return v, nil
	case 'D':
		if e := d.need(8); e != nil {
			return Value{}, e
		}
		v := F64V(binary.BigEndian.Uint64(d.b[d.p:]))
		d.p += 8
		return v, nil
	case 'C':
		if e := d.need(1); e != nil {
			return Value{}, e
		}
		if d.b[d.p] > 127 {
			// draft 12: a char is one ASCII character, 0..127
			return Value{}, &refErr{st: Malformed, feature: "char above 127", off: d.p}
		}
		v := UintV(uint64(d.b[d.p]))
		d.p++
		return v, nil
	case 'H', 'S':
		s, e := d.str()
		if e != nil {
			return Value{}, e
		}
		return StrV(s), nil
	case '[':
		return d.container(false)
	case '{':
		return d.container(true)
	}
	d.p--
	return Value{}, d.malformed(fmt.Sprintf("unknown marker %q", m))
}

func ubjBaseType(m byte) structform.BaseType {
	switch m {
	case 'T', 'F':
		return structform.BoolType
	case 'C':
		return structform.ByteType
	case 'i':
		return structform.Int8Type
	case 'U':
		return structform.Uint8Type
	case 'I':
		return structform.Int16Type
	case 'l':
		return structform.Int32Type
	case 'L':
		return structform.Int64Type
	case 'd':
		return structform.Float32Type
	case 'D':
		return structform.Float64Type
	case 'H', 'S':
		return structform.StringType
	}
	return structform.AnyType
}

// container decodes an array or object body (the opening marker has been consumed).
func (d *ubjDec) container(obj bool) (Value, *refErr) {
	v := Value{K: VArr, Len: -1}
	if obj {
		v.K = VObj
	}
	var typ byte
	count := -1
	if e := d.need(1); e != nil {
		return Value{}, e
	}
	if d.b[d.p] == '$' {
		d.p++
		if e := d.need(1); e != nil {
			return Value{}, e
		}
		typ = d.b[d.p]
		if !isUBJValueMarker(typ) || typ == 'N' {
			return Value{}, d.malformed(fmt.Sprintf("bad element type %q", typ))
		}
		d.p++
		v.BT = ubjBaseType(typ)
		if e := d.need(1); e != nil {
			return Value{}, e
		}
		if d.b[d.p] != '#' {
			return Value{}, d.malformed("typed container without count")
		}
	}
	if d.b[d.p] == '#' {
		d.p++
		n, e := d.length()
		if e != nil {
			return Value{}, e
		}
		count = n
		v.Len = n
	}
	if (typ == 'Z' || typ == 'T' || typ == 'F') && count > 1<<16 {
		// a few bytes that denote an astronomically long container: outside every bounded check
		return Value{}, &refErr{st: Unsupported, feature: "payload-less typed container with huge count", off: d.p}
	}
	for i := 0; count < 0 || i < count; i++ {
		if count < 0 {
			// skip no-ops, look for the end marker
			for {
				if e := d.need(1); e != nil {
					return Value{}, e
				}
				if d.b[d.p] != 'N' || obj {
					break // (where a field name is expected a no-op is not a length marker: malformed)
				}
				d.p++
			}
			end := byte(']')
			if obj {
				end = '}'
			}
			if d.b[d.p] == end {
				d.p++
				break
			}
		}
		if obj {
			k, e := d.str()
			if e != nil {
				return Value{}, e
			}
			v.Keys = append(v.Keys, k)
		}
		var el Value
		var e *refErr
		if typ != 0 {
			el, e = d.payload(typ)
		} else {
			// a no-op where a value is expected (array element, object member value; plain and counted
			// containers) is skipped and does not count
			for {
				if e := d.need(1); e != nil {
					return Value{}, e
				}
				if d.b[d.p] != 'N' {
					break
				}
				d.p++
			}
			el, e = d.value()
		}
		if e != nil {
			return Value{}, e
		}
		v.Elems = append(v.Elems, el)
	}
	return v, nil
}
