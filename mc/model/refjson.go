package model

import (
	"math"
	"math/big"
	"unicode/utf16"
	"unicode/utf8"
)

// RefJSON decodes a sequence of RFC 8259 JSON texts separated by optional insignificant
// whitespace. It is written from the RFC and shares no code with the library.
//
// Numbers: an integer literal (no fraction, no exponent) inside [-2^63, 2^64-1] is that exact
// integer; every other number is the correctly rounded float64 (computed with math/big, not
// strconv). NumOutOfRange is set on values whose literal is an integer outside the 64-bit
// range or whose magnitude exceeds MaxFloat64 (the property allows rejecting those).
//
// Strings: escapes resolved; surrogate pairs combined; a lone surrogate becomes U+FFFD (as
// encoding/json does); raw bytes are copied untouched.
//
// A number that is ended by the end of the input is complete if it is a valid number; input
// ending inside a number (`-`, `1.`, `1e`, `1e+`) is Truncated.
func RefJSON(b []byte) (r Ref) {
	d := &jsonDec{b: b}
	for {
		d.ws()
		if d.p >= len(b) {
			return
		}
		v, e := d.value(0)
		if e != nil {
			r.Status, r.Feature, r.Offset = e.st, e.feature, e.off
			return
		}
		r.Values = append(r.Values, v)
		r.Ends = append(r.Ends, d.p)
	}
}

// JSONOutOfRange reports whether the value contains a number whose literal the library may reject or widen.
func JSONOutOfRange(v Value) bool {
	if v.outOfRange {
		return true
	}
	for _, e := range v.Elems {
		if JSONOutOfRange(e) {
			return true
		}
	}
	return false
}

type jsonDec struct {
	b []byte
	p int
}

func (d *jsonDec) ws() {
	for d.p < len(d.b) {
		switch d.b[d.p] {
		case ' ', '\t', '\n', '\r':
			d.p++
		default:
			return
		}
	}
}

func (d *jsonDec) trunc() *refErr       { return &refErr{st: Truncated, off: len(d.b)} }
func (d *jsonDec) bad(f string) *refErr { return &refErr{st: Malformed, feature: f, off: d.p} }
func (d *jsonDec) lit(s string) *refErr {
	for i := 0; i < len(s); i++ {
		if d.p+i >= len(d.b) {
			return d.trunc()
		}
		if d.b[d.p+i] != s[i] {
			d.p += i
			return d.bad("bad literal")
		}
	}
	d.p += len(s)
	return nil
}

func (d *jsonDec) value(depth int) (Value, *refErr) {
	d.ws()
	if d.p >= len(d.b) {
		return Value{}, d.trunc()
	}
	switch c := d.b[d.p]; {
	case c == 'n':
		return NullV(), d.lit("null")
	case c == 't':
		return BoolV(true), d.lit("true")
	case c == 'f':
		return BoolV(false), d.lit("false")
	case c == '"':
		s, e := d.str()
		return StrV(s), e
	case c == '[':
		d.p++
		v := Value{K: VArr, Len: -1}
		d.ws()
		if d.p >= len(d.b) {
			return v, d.trunc()
		}
		if d.b[d.p] == ']' {
			d.p++
			return v, nil
		}
		for {
			el, e := d.value(depth + 1)
			if e != nil {
				return v, e
			}
			v.Elems = append(v.Elems, el)
			d.ws()
			if d.p >= len(d.b) {
				return v, d.trunc()
			}
			if d.b[d.p] == ',' {
				d.p++
				continue
			}
			if d.b[d.p] == ']' {
				d.p++
				return v, nil
			}
			return v, d.bad("expected , or ]")
		}
	case c == '{':
		d.p++
		v := Value{K: VObj, Len: -1}
		d.ws()
		if d.p >= len(d.b) {
			return v, d.trunc()
		}
		if d.b[d.p] == '}' {
			d.p++
			return v, nil
		}
		for {
			d.ws()
			if d.p >= len(d.b) {
				return v, d.trunc()
			}
			if d.b[d.p] != '"' {
				return v, d.bad("expected key")
			}
			k, e := d.str()
			if e != nil {
				return v, e
			}
			d.ws()
			if d.p >= len(d.b) {
				return v, d.trunc()
			}
			if d.b[d.p] != ':' {
				return v, d.bad("expected :")
			}
			d.p++
			el, e := d.value(depth + 1)
			if e != nil {
				return v, e
			}
			v.Keys = append(v.Keys, k)
			v.Elems = append(v.Elems, el)
			d.ws()
			if d.p >= len(d.b) {
				return v, d.trunc()
			}
			if d.b[d.p] == ',' {
				d.p++
				continue
			}
			if d.b[d.p] == '}' {
				d.p++
				return v, nil
			}
			return v, d.bad("expected , or }")
		}
	case c == '-' || (c >= '0' && c <= '9'):
		return d.number()
	}
	return Value{}, d.bad("unexpected character")
}

func hexv(c byte) (rune, bool) {
	switch {
	case c >= '0' && c <= '9':
		return rune(c - '0'), true
	case c >= 'a' && c <= 'f':
		return rune(c-'a') + 10, true
	case c >= 'A' && c <= 'F':
		return rune(c-'A') + 10, true
	}
	return 0, false
}

// u4 reads 4 hex digits at d.p (after `\u`).
func (d *jsonDec) u4() (rune, *refErr) {
	var r rune
	for i := 0; i < 4; i++ {
		if d.p >= len(d.b) {
			return 0, d.trunc()
		}
		h, ok := hexv(d.b[d.p])
		if !ok {
			return 0, d.bad("bad hex digit")
		}
		r = r<<4 | h
		d.p++
	}
	return r, nil
}

func (d *jsonDec) str() (string, *refErr) {
	d.p++ // opening quote
	var out []byte
	for {
		if d.p >= len(d.b) {
			return "", d.trunc()
		}
		c := d.b[d.p]
		switch {
		case c == '"':
			d.p++
			return string(out), nil
		case c < 0x20:
			return "", d.bad("control character in string")
		case c == '\\':
			d.p++
			if d.p >= len(d.b) {
				return "", d.trunc()
			}
			e := d.b[d.p]
			d.p++
			switch e {
			case '"', '\\', '/':
				out = append(out, e)
			case 'b':
				out = append(out, '\b')
			case 'f':
				out = append(out, '\f')
			case 'n':
				out = append(out, '\n')
			case 'r':
				out = append(out, '\r')
			case 't':
				out = append(out, '\t')
			case 'u':
				r, err := d.u4()
				if err != nil {
					return "", err
				}
				if utf16.IsSurrogate(r) {
					// try to combine with a following \uXXXX low surrogate
					save := d.p
					comb := rune(utf8.RuneError)
					if d.p+1 < len(d.b) && d.b[d.p] == '\\' && d.b[d.p+1] == 'u' {
						d.p += 2
						r2, err := d.u4()
						if err != nil {
							return "", err
						}
						if dec := utf16.DecodeRune(r, r2); dec != utf8.RuneError {
							comb = dec
						} else {
							d.p = save
						}
					}
					r = comb
				}
				var tmp [4]byte
				n := utf8.EncodeRune(tmp[:], r)
				out = append(out, tmp[:n]...)
			default:
				d.p--
				return "", d.bad("unknown escape")
			}
		default:
			out = append(out, c)
			d.p++
		}
	}
}

func (d *jsonDec) digits() int {
	n := 0
	for d.p < len(d.b) && d.b[d.p] >= '0' && d.b[d.p] <= '9' {
		d.p++
		n++
	}
	return n
}

func (d *jsonDec) number() (Value, *refErr) {
	start := d.p
	isInt := true
	if d.b[d.p] == '-' {
		d.p++
	}
	if d.p >= len(d.b) {
		return Value{}, d.trunc()
	}
	if d.b[d.p] == '0' {
		d.p++
	} else if d.digits() == 0 {
		return Value{}, d.bad("digit expected")
	}
	if d.p < len(d.b) && d.b[d.p] == '.' {
		isInt = false
		d.p++
		if d.p >= len(d.b) {
			return Value{}, d.trunc()
		}
		if d.digits() == 0 {
			return Value{}, d.bad("fraction digit expected")
		}
	}
	if d.p < len(d.b) && (d.b[d.p] == 'e' || d.b[d.p] == 'E') {
		isInt = false
		d.p++
		if d.p < len(d.b) && (d.b[d.p] == '+' || d.b[d.p] == '-') {
			d.p++
		}
		if d.p >= len(d.b) {
			return Value{}, d.trunc()
		}
		if d.digits() == 0 {
			return Value{}, d.bad("exponent digit expected")
		}
	}
	lit := string(d.b[start:d.p])
	return NumberValue(lit, isInt), nil
}

// NumberValue gives the reference value of a valid JSON number literal.
func NumberValue(lit string, isInt bool) Value {
	if isInt {
		n, ok := new(big.Int).SetString(lit, 10)
		if ok {
			if n.Sign() >= 0 && n.IsUint64() {
				return UintV(n.Uint64())
			}
			if n.Sign() < 0 && n.IsInt64() {
				return IntV(n.Int64())
			}
		}
	}
	rat, ok := new(big.Rat).SetString(lit)
	if !ok {
		return Value{K: VF64, Bits: math.Float64bits(math.NaN()), outOfRange: true}
	}
	f, _ := rat.Float64()
	v := F64V(math.Float64bits(f))
	if isInt || math.IsInf(f, 0) {
		v.outOfRange = true
	}
	if lit[0] == '-' && f == 0 {
		v.Bits = 1 << 63 // "-0.0" is negative zero
	}
	return v
}
