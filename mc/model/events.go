// Package model holds the boring reference side: the event and value model,
// recording visitors, the Visitor-contract monitor and the reference decoders.
package model

import (
	"fmt"
	"math"
	"sort"
	"strconv"
	"strings"

	structform "github.com/elastic/go-structform"
)

// Kind is the kind of one visitor event.
type Kind uint8

const (
	KObjStart Kind = iota
	KObjEnd
	KKey
	KArrStart
	KArrEnd
	KNil
	KBool
	KString
	KInt8
	KInt16
	KInt32
	KInt64
	KInt
	KByte
	KUint8
	KUint16
	KUint32
	KUint64
	KUint
	KFloat32
	KFloat64
	// extended array events
	KBoolArray
	KStringArray
	KInt8Array
	KInt16Array
	KInt32Array
	KInt64Array
	KIntArray
	KBytes
	KUint8Array
	KUint16Array
	KUint32Array
	KUint64Array
	KUintArray
	KFloat32Array
	KFloat64Array
	// extended object events
	KBoolObject
	KStringObject
	KInt8Object
	KInt16Object
	KInt32Object
	KInt64Object
	KIntObject
	KUint8Object
	KUint16Object
	KUint32Object
	KUint64Object
	KUintObject
	KFloat32Object
	KFloat64Object
	kindCount
)

var kindNames = [...]string{"ObjStart", "ObjEnd", "Key", "ArrStart", "ArrEnd", "Nil", "Bool", "String",
	"Int8", "Int16", "Int32", "Int64", "Int", "Byte", "Uint8", "Uint16", "Uint32", "Uint64", "Uint", "Float32", "Float64",
	"BoolArray", "StringArray", "Int8Array", "Int16Array", "Int32Array", "Int64Array", "IntArray", "Bytes", "Uint8Array",
	"Uint16Array", "Uint32Array", "Uint64Array", "UintArray", "Float32Array", "Float64Array",
	"BoolObject", "StringObject", "Int8Object", "Int16Object", "Int32Object", "Int64Object", "IntObject", "Uint8Object",
	"Uint16Object", "Uint32Object", "Uint64Object", "UintObject", "Float32Object", "Float64Object"}

func (k Kind) String() string {
	if int(k) < len(kindNames) {
		return kindNames[k]
	}
	return fmt.Sprintf("Kind(%d)", k)
}

// IsExtArr / IsExtObj tell extended events.
func (k Kind) IsExtArr() bool { return k >= KBoolArray && k <= KFloat64Array }
func (k Kind) IsExtObj() bool { return k >= KBoolObject && k <= KFloat64Object }
func (k Kind) IsInt() bool    { return k >= KInt8 && k <= KUint }
func (k Kind) IsSigned() bool { return k >= KInt8 && k <= KInt }
func (k Kind) IsFloat() bool  { return k == KFloat32 || k == KFloat64 }
func (k Kind) IsScalar() bool { return k >= KNil && k <= KFloat64 }

// Event is one visitor event.
type Event struct {
	K   Kind
	Len int                 // announced length (starts)
	BT  structform.BaseType // announced element type (starts)
	B   bool
	S   string // string / key payload
	Ref bool   // delivered through OnStringRef / OnKeyRef
	I   int64  // signed payload
	U   uint64 // unsigned payload, or float bits
	Ext interface{}
}

func (e Event) String() string {
	switch e.K {
	case KObjStart, KArrStart:
		return fmt.Sprintf("%v(%d,%v)", e.K, e.Len, e.BT)
	case KObjEnd, KArrEnd, KNil:
		return e.K.String()
	case KKey, KString:
		r := ""
		if e.Ref {
			r = "Ref"
		}
		return fmt.Sprintf("%v%s(%s)", e.K, r, strconv.QuoteToASCII(e.S))
	case KBool:
		return fmt.Sprintf("Bool(%v)", e.B)
	case KFloat32:
		return fmt.Sprintf("Float32(%v/%#x)", math.Float32frombits(uint32(e.U)), e.U)
	case KFloat64:
		return fmt.Sprintf("Float64(%v/%#x)", math.Float64frombits(e.U), e.U)
	}
	if e.K.IsSigned() {
		return fmt.Sprintf("%v(%d)", e.K, e.I)
	}
	if e.K.IsInt() {
		return fmt.Sprintf("%v(%d)", e.K, e.U)
	}
	return fmt.Sprintf("%v(%v)", e.K, e.Ext)
}

// EventsString renders a stream.
func EventsString(evs []Event) string {
	var sb strings.Builder
	for i, e := range evs {
		if i > 0 {
			sb.WriteByte(' ')
		}
		sb.WriteString(e.String())
		if sb.Len() > 1500 {
			fmt.Fprintf(&sb, " …(%d events)", len(evs))
			break
		}
	}
	return sb.String()
}

// Constructors.
func ObjStart(l int, bt structform.BaseType) Event { return Event{K: KObjStart, Len: l, BT: bt} }
func ArrStart(l int, bt structform.BaseType) Event { return Event{K: KArrStart, Len: l, BT: bt} }
func ObjEnd() Event                                { return Event{K: KObjEnd} }
func ArrEnd() Event                                { return Event{K: KArrEnd} }
func Key(s string) Event                           { return Event{K: KKey, S: s} }
func KeyRef(s string) Event                        { return Event{K: KKey, S: s, Ref: true} }
func Nil() Event                                   { return Event{K: KNil} }
func Bool(b bool) Event                            { return Event{K: KBool, B: b} }
func Str(s string) Event                           { return Event{K: KString, S: s} }
func StrRef(s string) Event                        { return Event{K: KString, S: s, Ref: true} }
func SInt(k Kind, i int64) Event                   { return Event{K: k, I: i} }
func UInt(k Kind, u uint64) Event                  { return Event{K: k, U: u} }
func F32(bits uint32) Event                        { return Event{K: KFloat32, U: uint64(bits)} }
func F64(bits uint64) Event                        { return Event{K: KFloat64, U: bits} }
func Ext(k Kind, v interface{}) Event              { return Event{K: k, Ext: v} }

// Recorder records events. It implements Visitor and StringRefVisitor (by-reference
// strings are copied inside the callback, as the contract demands).
type Recorder struct {
	Evs []Event
	// FailAt, if >= 0, makes the FailAt-th event (0-based) return Err.
	FailAt int
	Err    error
	// After counts events delivered after the failing one.
	After int
	// OnEvent, if set, is called after each recorded event (GC injection, scribbling, ...).
	OnEvent func(n int)
}

// NewRecorder returns a recorder that never fails.
func NewRecorder() *Recorder { return &Recorder{FailAt: -1} }

func (r *Recorder) add(e Event) error {
	n := len(r.Evs)
	if r.FailAt >= 0 && n > r.FailAt {
		r.After++
	}
	r.Evs = append(r.Evs, e)
	if r.OnEvent != nil {
		r.OnEvent(n)
	}
	if r.FailAt >= 0 && n >= r.FailAt {
		return r.Err
	}
	return nil
}

func (r *Recorder) OnObjectStart(l int, bt structform.BaseType) error { return r.add(ObjStart(l, bt)) }
func (r *Recorder) OnObjectFinished() error                           { return r.add(ObjEnd()) }
func (r *Recorder) OnKey(s string) error                              { return r.add(Key(strings.Clone(s))) }
func (r *Recorder) OnKeyRef(s []byte) error                           { return r.add(KeyRef(string(s))) }
func (r *Recorder) OnArrayStart(l int, bt structform.BaseType) error  { return r.add(ArrStart(l, bt)) }
func (r *Recorder) OnArrayFinished() error                            { return r.add(ArrEnd()) }
func (r *Recorder) OnNil() error                                      { return r.add(Nil()) }
func (r *Recorder) OnBool(b bool) error                               { return r.add(Bool(b)) }
func (r *Recorder) OnString(s string) error                           { return r.add(Str(strings.Clone(s))) }
func (r *Recorder) OnStringRef(s []byte) error                        { return r.add(StrRef(string(s))) }
func (r *Recorder) OnInt8(i int8) error                               { return r.add(SInt(KInt8, int64(i))) }
func (r *Recorder) OnInt16(i int16) error                             { return r.add(SInt(KInt16, int64(i))) }
func (r *Recorder) OnInt32(i int32) error                             { return r.add(SInt(KInt32, int64(i))) }
func (r *Recorder) OnInt64(i int64) error                             { return r.add(SInt(KInt64, i)) }
func (r *Recorder) OnInt(i int) error                                 { return r.add(SInt(KInt, int64(i))) }
func (r *Recorder) OnByte(b byte) error                               { return r.add(UInt(KByte, uint64(b))) }
func (r *Recorder) OnUint8(u uint8) error                             { return r.add(UInt(KUint8, uint64(u))) }
func (r *Recorder) OnUint16(u uint16) error                           { return r.add(UInt(KUint16, uint64(u))) }
func (r *Recorder) OnUint32(u uint32) error                           { return r.add(UInt(KUint32, uint64(u))) }
func (r *Recorder) OnUint64(u uint64) error                           { return r.add(UInt(KUint64, u)) }
func (r *Recorder) OnUint(u uint) error                               { return r.add(UInt(KUint, uint64(u))) }
func (r *Recorder) OnFloat32(f float32) error                         { return r.add(F32(math.Float32bits(f))) }
func (r *Recorder) OnFloat64(f float64) error                         { return r.add(F64(math.Float64bits(f))) }

// PlainRecorder implements only structform.Visitor (no by-reference strings, no extended events).
type PlainRecorder struct{ R *Recorder }

func (p PlainRecorder) OnObjectStart(l int, bt structform.BaseType) error {
	return p.R.OnObjectStart(l, bt)
}
func (p PlainRecorder) OnObjectFinished() error { return p.R.OnObjectFinished() }
func (p PlainRecorder) OnKey(s string) error    { return p.R.OnKey(s) }
func (p PlainRecorder) OnArrayStart(l int, bt structform.BaseType) error {
	return p.R.OnArrayStart(l, bt)
}
func (p PlainRecorder) OnArrayFinished() error    { return p.R.OnArrayFinished() }
func (p PlainRecorder) OnNil() error              { return p.R.OnNil() }
func (p PlainRecorder) OnBool(b bool) error       { return p.R.OnBool(b) }
func (p PlainRecorder) OnString(s string) error   { return p.R.OnString(s) }
func (p PlainRecorder) OnInt8(i int8) error       { return p.R.OnInt8(i) }
func (p PlainRecorder) OnInt16(i int16) error     { return p.R.OnInt16(i) }
func (p PlainRecorder) OnInt32(i int32) error     { return p.R.OnInt32(i) }
func (p PlainRecorder) OnInt64(i int64) error     { return p.R.OnInt64(i) }
func (p PlainRecorder) OnInt(i int) error         { return p.R.OnInt(i) }
func (p PlainRecorder) OnByte(b byte) error       { return p.R.OnByte(b) }
func (p PlainRecorder) OnUint8(u uint8) error     { return p.R.OnUint8(u) }
func (p PlainRecorder) OnUint16(u uint16) error   { return p.R.OnUint16(u) }
func (p PlainRecorder) OnUint32(u uint32) error   { return p.R.OnUint32(u) }
func (p PlainRecorder) OnUint64(u uint64) error   { return p.R.OnUint64(u) }
func (p PlainRecorder) OnUint(u uint) error       { return p.R.OnUint(u) }
func (p PlainRecorder) OnFloat32(f float32) error { return p.R.OnFloat32(f) }
func (p PlainRecorder) OnFloat64(f float64) error { return p.R.OnFloat64(f) }

// Drive plays events into v until the first error; it returns the index of the
// failing event (len(evs) if none) and the error. scratch, if non-nil, is used to
// hand out by-reference strings and is scribbled over after each callback.
func Drive(v structform.ExtVisitor, evs []Event) (int, error) {
	for i, e := range evs {
		if err := DriveOne(v, e); err != nil {
			return i, err
		}
	}
	return len(evs), nil
}

// DriveOne plays one event.
func DriveOne(v structform.ExtVisitor, e Event) error {
	switch e.K {
	case KObjStart:
		return v.OnObjectStart(e.Len, e.BT)
	case KObjEnd:
		return v.OnObjectFinished()
	case KKey:
		if e.Ref {
			b := []byte(e.S)
			err := v.OnKeyRef(b)
			scribble(b)
			return err
		}
		return v.OnKey(e.S)
	case KArrStart:
		return v.OnArrayStart(e.Len, e.BT)
	case KArrEnd:
		return v.OnArrayFinished()
	case KNil:
		return v.OnNil()
	case KBool:
		return v.OnBool(e.B)
	case KString:
		if e.Ref {
			b := []byte(e.S)
			err := v.OnStringRef(b)
			scribble(b)
			return err
		}
		return v.OnString(e.S)
	case KInt8:
		return v.OnInt8(int8(e.I))
	case KInt16:
		return v.OnInt16(int16(e.I))
	case KInt32:
		return v.OnInt32(int32(e.I))
	case KInt64:
		return v.OnInt64(e.I)
	case KInt:
		return v.OnInt(int(e.I))
	case KByte:
		return v.OnByte(byte(e.U))
	case KUint8:
		return v.OnUint8(uint8(e.U))
	case KUint16:
		return v.OnUint16(uint16(e.U))
	case KUint32:
		return v.OnUint32(uint32(e.U))
	case KUint64:
		return v.OnUint64(e.U)
	case KUint:
		return v.OnUint(uint(e.U))
	case KFloat32:
		return v.OnFloat32(math.Float32frombits(uint32(e.U)))
	case KFloat64:
		return v.OnFloat64(math.Float64frombits(e.U))
	case KBoolArray:
		return v.OnBoolArray(e.Ext.([]bool))
	case KStringArray:
		return v.OnStringArray(e.Ext.([]string))
	case KInt8Array:
		return v.OnInt8Array(e.Ext.([]int8))
	case KInt16Array:
		return v.OnInt16Array(e.Ext.([]int16))
	case KInt32Array:
		return v.OnInt32Array(e.Ext.([]int32))
	case KInt64Array:
		return v.OnInt64Array(e.Ext.([]int64))
	case KIntArray:
		return v.OnIntArray(e.Ext.([]int))
	case KBytes:
		return v.OnBytes(e.Ext.([]byte))
	case KUint8Array:
		return v.OnUint8Array(e.Ext.([]uint8))
	case KUint16Array:
		return v.OnUint16Array(e.Ext.([]uint16))
	case KUint32Array:
		return v.OnUint32Array(e.Ext.([]uint32))
	case KUint64Array:
		return v.OnUint64Array(e.Ext.([]uint64))
	case KUintArray:
		return v.OnUintArray(e.Ext.([]uint))
	case KFloat32Array:
		return v.OnFloat32Array(e.Ext.([]float32))
	case KFloat64Array:
		return v.OnFloat64Array(e.Ext.([]float64))
	case KBoolObject:
		return v.OnBoolObject(e.Ext.(map[string]bool))
	case KStringObject:
		return v.OnStringObject(e.Ext.(map[string]string))
	case KInt8Object:
		return v.OnInt8Object(e.Ext.(map[string]int8))
	case KInt16Object:
		return v.OnInt16Object(e.Ext.(map[string]int16))
	case KInt32Object:
		return v.OnInt32Object(e.Ext.(map[string]int32))
	case KInt64Object:
		return v.OnInt64Object(e.Ext.(map[string]int64))
	case KIntObject:
		return v.OnIntObject(e.Ext.(map[string]int))
	case KUint8Object:
		return v.OnUint8Object(e.Ext.(map[string]uint8))
	case KUint16Object:
		return v.OnUint16Object(e.Ext.(map[string]uint16))
	case KUint32Object:
		return v.OnUint32Object(e.Ext.(map[string]uint32))
	case KUint64Object:
		return v.OnUint64Object(e.Ext.(map[string]uint64))
	case KUintObject:
		return v.OnUintObject(e.Ext.(map[string]uint))
	case KFloat32Object:
		return v.OnFloat32Object(e.Ext.(map[string]float32))
	case KFloat64Object:
		return v.OnFloat64Object(e.Ext.(map[string]float64))
	}
	panic(fmt.Sprintf("DriveOne: bad kind %v", e.K))
}

func scribble(b []byte) {
	for i := range b {
		b[i] = 0xAA
	}
}

// Expand replaces every extended event by its basic-event expansion (map events in sorted key order).
func Expand(evs []Event) []Event {
	need := false
	for _, e := range evs {
		if e.K >= KBoolArray {
			need = true
			break
		}
	}
	if !need {
		return evs
	}
	out := make([]Event, 0, len(evs)+8)
	for _, e := range evs {
		if e.K < KBoolArray {
			out = append(out, e)
			continue
		}
		out = append(out, ExpandOne(e)...)
	}
	return out
}

// ExpandOne expands one extended event.
func ExpandOne(e Event) []Event {
	var out []Event
	arr := func(n int, bt structform.BaseType) { out = append(out, ArrStart(n, bt)) }
	switch a := e.Ext.(type) {
	case []bool:
		arr(len(a), structform.BoolType)
		for _, v := range a {
			out = append(out, Bool(v))
		}
	case []string:
		arr(len(a), structform.StringType)
		for _, v := range a {
			out = append(out, Str(v))
		}
	case []int8:
		arr(len(a), structform.Int8Type)
		for _, v := range a {
			out = append(out, SInt(KInt8, int64(v)))
		}
	case []int16:
		arr(len(a), structform.Int16Type)
		for _, v := range a {
			out = append(out, SInt(KInt16, int64(v)))
		}
	case []int32:
		arr(len(a), structform.Int32Type)
		for _, v := range a {
			out = append(out, SInt(KInt32, int64(v)))
		}
	case []int64:
		arr(len(a), structform.Int64Type)
		for _, v := range a {
			out = append(out, SInt(KInt64, v))
		}
	case []int:
		arr(len(a), structform.IntType)
		for _, v := range a {
			out = append(out, SInt(KInt, int64(v)))
		}
	case []uint8:
		if e.K == KBytes {
			arr(len(a), structform.ByteType)
			for _, v := range a {
				out = append(out, UInt(KByte, uint64(v)))
			}
		} else {
			arr(len(a), structform.Uint8Type)
			for _, v := range a {
				out = append(out, UInt(KUint8, uint64(v)))
			}
		}
	case []uint16:
		arr(len(a), structform.Uint16Type)
		for _, v := range a {
			out = append(out, UInt(KUint16, uint64(v)))
		}
	case []uint32:
		arr(len(a), structform.Uint32Type)
		for _, v := range a {
			out = append(out, UInt(KUint32, uint64(v)))
		}
	case []uint64:
		arr(len(a), structform.Uint64Type)
		for _, v := range a {
			out = append(out, UInt(KUint64, v))
		}
	case []uint:
		arr(len(a), structform.UintType)
		for _, v := range a {
			out = append(out, UInt(KUint, uint64(v)))
		}
	case []float32:
		arr(len(a), structform.Float32Type)
		for _, v := range a {
			out = append(out, F32(math.Float32bits(v)))
		}
	case []float64:
		arr(len(a), structform.Float64Type)
		for _, v := range a {
			out = append(out, F64(math.Float64bits(v)))
		}
	default:
		return expandMap(e)
	}
	return append(out, ArrEnd())
}

func sortedKeys(n int, key func(i int) string) []int {
	idx := make([]int, n)
	for i := range idx {
		idx[i] = i
	}
	sort.Slice(idx, func(a, b int) bool { return key(idx[a]) < key(idx[b]) })
	return idx
}

func expandMap(e Event) []Event {
	type kv struct {
		k string
		v Event
	}
	var kvs []kv
	var bt structform.BaseType
	switch m := e.Ext.(type) {
	case map[string]bool:
		bt = structform.BoolType
		for k, v := range m {
			kvs = append(kvs, kv{k, Bool(v)})
		}
	case map[string]string:
		bt = structform.StringType
		for k, v := range m {
			kvs = append(kvs, kv{k, Str(v)})
		}
	case map[string]int8:
		bt = structform.Int8Type
		for k, v := range m {
			kvs = append(kvs, kv{k, SInt(KInt8, int64(v))})
		}
	case map[string]int16:
		bt = structform.Int16Type
		for k, v := range m {
			kvs = append(kvs, kv{k, SInt(KInt16, int64(v))})
		}
	case map[string]int32:
		bt = structform.Int32Type
		for k, v := range m {
			kvs = append(kvs, kv{k, SInt(KInt32, int64(v))})
		}
	case map[string]int64:
		bt = structform.Int64Type
		for k, v := range m {
			kvs = append(kvs, kv{k, SInt(KInt64, v)})
		}
	case map[string]int:
		bt = structform.IntType
		for k, v := range m {
			kvs = append(kvs, kv{k, SInt(KInt, int64(v))})
		}
	case map[string]uint8:
		bt = structform.Uint8Type
		for k, v := range m {
			kvs = append(kvs, kv{k, UInt(KUint8, uint64(v))})
		}
	case map[string]uint16:
		bt = structform.Uint16Type
		for k, v := range m {
			kvs = append(kvs, kv{k, UInt(KUint16, uint64(v))})
		}
	case map[string]uint32:
		bt = structform.Uint32Type
		for k, v := range m {
			kvs = append(kvs, kv{k, UInt(KUint32, uint64(v))})
		}
	case map[string]uint64:
		bt = structform.Uint64Type
		for k, v := range m {
			kvs = append(kvs, kv{k, UInt(KUint64, v)})
		}
	case map[string]uint:
		bt = structform.UintType
		for k, v := range m {
			kvs = append(kvs, kv{k, UInt(KUint, uint64(v))})
		}
	case map[string]float32:
		bt = structform.Float32Type
		for k, v := range m {
			kvs = append(kvs, kv{k, F32(math.Float32bits(v))})
		}
	case map[string]float64:
		bt = structform.Float64Type
		for k, v := range m {
			kvs = append(kvs, kv{k, F64(math.Float64bits(v))})
		}
	default:
		panic(fmt.Sprintf("expandMap: bad payload %T", e.Ext))
	}
	sort.Slice(kvs, func(a, b int) bool { return kvs[a].k < kvs[b].k })
	out := []Event{{K: KObjStart, Len: len(kvs), BT: bt, B: true /* unordered marker */}}
	for _, p := range kvs {
		out = append(out, Key(p.k), p.v)
	}
	return append(out, ObjEnd())
}

// SameEvents compares two basic-event streams; by-reference and by-value delivery of strings and keys are the same event.
func SameEvents(a, b []Event) bool {
	if len(a) != len(b) {
		return false
	}
	for i := range a {
		x, y := a[i], b[i]
		if x.K != y.K || x.Len != y.Len || x.BT != y.BT || x.B != y.B || x.S != y.S || x.I != y.I || x.U != y.U {
			return false
		}
	}
	return true
}

// IsPrefix tells whether a is a prefix of b.
func IsPrefix(a, b []Event) bool {
	return len(a) <= len(b) && SameEvents(a, b[:len(a)])
}

// Tap forwards every basic and by-reference event to the embedded ExtVisitor after calling
// Before(n) with the running event index (GC injection, fault injection, ...). Extended
// array/map events are forwarded untouched and count as one event each.
type Tap struct {
	structform.ExtVisitor
	Before func(n int)
	N      int
}

func (t *Tap) tick() {
	if t.Before != nil {
		t.Before(t.N)
	}
	t.N++
}

func (t *Tap) OnObjectStart(l int, bt structform.BaseType) error {
	t.tick()
	return t.ExtVisitor.OnObjectStart(l, bt)
}
func (t *Tap) OnObjectFinished() error { t.tick(); return t.ExtVisitor.OnObjectFinished() }
func (t *Tap) OnKey(s string) error    { t.tick(); return t.ExtVisitor.OnKey(s) }
func (t *Tap) OnKeyRef(s []byte) error { t.tick(); return t.ExtVisitor.OnKeyRef(s) }
func (t *Tap) OnArrayStart(l int, bt structform.BaseType) error {
	t.tick()
	return t.ExtVisitor.OnArrayStart(l, bt)
}
func (t *Tap) OnArrayFinished() error     { t.tick(); return t.ExtVisitor.OnArrayFinished() }
func (t *Tap) OnNil() error               { t.tick(); return t.ExtVisitor.OnNil() }
func (t *Tap) OnBool(b bool) error        { t.tick(); return t.ExtVisitor.OnBool(b) }
func (t *Tap) OnString(s string) error    { t.tick(); return t.ExtVisitor.OnString(s) }
func (t *Tap) OnStringRef(s []byte) error { t.tick(); return t.ExtVisitor.OnStringRef(s) }
func (t *Tap) OnInt8(i int8) error        { t.tick(); return t.ExtVisitor.OnInt8(i) }
func (t *Tap) OnInt16(i int16) error      { t.tick(); return t.ExtVisitor.OnInt16(i) }
func (t *Tap) OnInt32(i int32) error      { t.tick(); return t.ExtVisitor.OnInt32(i) }
func (t *Tap) OnInt64(i int64) error      { t.tick(); return t.ExtVisitor.OnInt64(i) }
func (t *Tap) OnInt(i int) error          { t.tick(); return t.ExtVisitor.OnInt(i) }
func (t *Tap) OnByte(b byte) error        { t.tick(); return t.ExtVisitor.OnByte(b) }
func (t *Tap) OnUint8(u uint8) error      { t.tick(); return t.ExtVisitor.OnUint8(u) }
func (t *Tap) OnUint16(u uint16) error    { t.tick(); return t.ExtVisitor.OnUint16(u) }
func (t *Tap) OnUint32(u uint32) error    { t.tick(); return t.ExtVisitor.OnUint32(u) }
func (t *Tap) OnUint64(u uint64) error    { t.tick(); return t.ExtVisitor.OnUint64(u) }
func (t *Tap) OnUint(u uint) error        { t.tick(); return t.ExtVisitor.OnUint(u) }
func (t *Tap) OnFloat32(f float32) error  { t.tick(); return t.ExtVisitor.OnFloat32(f) }
func (t *Tap) OnFloat64(f float64) error  { t.tick(); return t.ExtVisitor.OnFloat64(f) }
