package model

import (
	"fmt"
	"reflect"
	"strings"
	"unicode"
	"unicode/utf8"

	structform "github.com/elastic/go-structform"
)

// FoldExpect is what the documented mapping says folding a Go value must produce.
type FoldExpect struct {
	V         Value
	Refuse    bool   // the type cannot be handled: an error is expected (not a crash)
	Why       string // reason for Refuse
	Ambiguous int    // members the statement leaves open (accepted present or absent)
}

type refuse struct{ why string }

// RefFold is the executable reading of the documented tag rules (property C12):
//   - struct -> object; member name = tag name, else lower-cased field name; field order;
//     unexported, "-" and omit fields dropped; omitempty fields dropped when empty
//     (zero-length string/slice/array/map, nil pointer or interface, IsZero()==true, looked at
//     through pointers and interfaces); inline/squash fields replaced by the members of their
//     struct / map / interface-held object; inline together with omitempty is refused;
//   - pointers and interfaces -> their target, or null when nil; maps (string keys) -> objects;
//     slices and arrays -> arrays; numbers exactly; a type implementing Fold(ExtVisitor) ->
//     exactly what that method emits.
//
// Where the statement is silent (a non-nil pointer or interface whose target is empty by size
// under omitempty) the member is marked optional.
func RefFold(v interface{}) (fe FoldExpect) {
	defer func() {
		if r := recover(); r != nil {
			if rf, ok := r.(refuse); ok {
				fe = FoldExpect{Refuse: true, Why: rf.why}
				return
			}
			panic(r)
		}
	}()
	if v == nil {
		return FoldExpect{V: NullV()}
	}
	amb := 0
	val := refFold(reflect.ValueOf(v), &amb, 0)
	return FoldExpect{V: val, Ambiguous: amb}
}

var (
	tExtVisitor = reflect.TypeOf((*structform.ExtVisitor)(nil)).Elem()
	tErr        = reflect.TypeOf((*error)(nil)).Elem()
)

func folderMethod(t reflect.Type) (reflect.Method, bool) {
	m, ok := t.MethodByName("Fold")
	if !ok || m.Type.NumIn() != 2 || m.Type.In(1) != tExtVisitor || m.Type.NumOut() != 1 || m.Type.Out(0) != tErr {
		return m, false
	}
	return m, true
}

func isZeroMethod(t reflect.Type) bool {
	m, ok := t.MethodByName("IsZero")
	return ok && m.Type.NumIn() == 1 && m.Type.NumOut() == 1 && m.Type.Out(0).Kind() == reflect.Bool
}

// viaFolder runs a custom Fold method and returns what it emitted.
func viaFolder(v reflect.Value) (Value, bool) {
	call := func(recv reflect.Value) (Value, bool) {
		rec := NewRecorder()
		ext := structform.EnsureExtVisitor(rec)
		out := recv.MethodByName("Fold").Call([]reflect.Value{reflect.ValueOf(ext)})
		if !out[0].IsNil() {
			panic(refuse{"custom folder returned an error"})
		}
		val, err := ValueOf(rec.Evs)
		if err != nil {
			panic(refuse{"custom folder emitted an ill-formed stream: " + err.Error()})
		}
		return val, true
	}
	if _, ok := folderMethod(v.Type()); ok {
		if v.Kind() == reflect.Ptr && v.IsNil() {
			return Value{}, false
		}
		return call(v)
	}
	if v.Kind() != reflect.Ptr && v.Kind() != reflect.Interface {
		if _, ok := folderMethod(reflect.PtrTo(v.Type())); ok {
			p := reflect.New(v.Type())
			p.Elem().Set(v)
			return call(p)
		}
	}
	return Value{}, false
}

// CustomFolders models folders registered through gotype.Folders: for a type T the function
// receives a (possibly nil) *T and returns what the registered folder emits.
var CustomFolders = map[reflect.Type]func(ptr reflect.Value) Value{}

func viaCustom(v reflect.Value) (Value, bool) {
	if len(CustomFolders) == 0 {
		return Value{}, false
	}
	if f, ok := CustomFolders[v.Type()]; ok {
		p := reflect.New(v.Type())
		p.Elem().Set(v)
		return f(p), true
	}
	if v.Kind() == reflect.Ptr {
		if f, ok := CustomFolders[v.Type().Elem()]; ok {
			return f(v), true
		}
	}
	return Value{}, false
}

func refFold(v reflect.Value, amb *int, depth int) Value {
	if depth > 2000 {
		panic(refuse{"value nested deeper than 2000 (self-referential)"})
	}
	if val, ok := viaCustom(v); ok {
		return val
	}
	if val, ok := viaFolder(v); ok {
		return val
	}
	switch v.Kind() {
	case reflect.Bool:
		return BoolV(v.Bool())
	case reflect.Int, reflect.Int8, reflect.Int16, reflect.Int32, reflect.Int64:
		return IntV(v.Int())
	case reflect.Uint, reflect.Uint8, reflect.Uint16, reflect.Uint32, reflect.Uint64:
		return UintV(v.Uint())
	case reflect.Float32:
		return F32V(f32bits(float32(v.Float())))
	case reflect.Float64:
		return F64V(f64bits(v.Float()))
	case reflect.String:
		return StrV(v.String())
	case reflect.Ptr, reflect.Interface:
		if v.IsNil() {
			return NullV()
		}
		return refFold(v.Elem(), amb, depth+1)
	case reflect.Slice, reflect.Array:
		out := Value{K: VArr, Len: v.Len()}
		for i := 0; i < v.Len(); i++ {
			out.Elems = append(out.Elems, refFold(v.Index(i), amb, depth+1))
		}
		return out
	case reflect.Map:
		if v.Type().Key().Kind() != reflect.String {
			panic(refuse{"map key is not a string"})
		}
		out := Value{K: VObj, Len: v.Len(), Unordered: true}
		for _, k := range v.MapKeys() {
			out.Keys = append(out.Keys, k.String())
			out.Elems = append(out.Elems, refFold(v.MapIndex(k), amb, depth+1))
		}
		return out
	case reflect.Struct:
		out := Value{K: VObj, Len: -1}
		structMembers(v, &out, amb, depth)
		return out
	}
	panic(refuse{fmt.Sprintf("unsupported kind %v", v.Kind())})
}

// ParseTag implements the documented tag syntax: name[,option]*, "-" drops the field.
func ParseTag(tag string) (name string, omit, omitEmpty, inline bool) {
	parts := strings.Split(tag, ",")
	if parts[0] == "-" {
		return "", true, false, false
	}
	for _, o := range parts[1:] {
		switch strings.TrimSpace(o) {
		case "squash", "inline":
			inline = true
		case "omitempty":
			omitEmpty = true
		case "omit":
			omit = true
		}
	}
	return strings.TrimSpace(parts[0]), omit, omitEmpty, inline
}

func exported(name string) bool {
	r, _ := utf8.DecodeRuneInString(name)
	return unicode.IsUpper(r)
}

func structMembers(v reflect.Value, out *Value, amb *int, depth int) {
	t := v.Type()
	for i := 0; i < t.NumField(); i++ {
		sf := t.Field(i)
		if !exported(sf.Name) {
			continue
		}
		name, omit, omitEmpty, inline := ParseTag(sf.Tag.Get("struct"))
		if inline && omitEmpty {
			panic(refuse{"inline and omitempty on the same field"})
		}
		if omit {
			continue
		}
		fv := v.Field(i)
		if inline {
			inlineMembers(fv, out, amb, depth)
			continue
		}
		if name == "" {
			name = strings.ToLower(sf.Name)
		}
		optional := false
		if omitEmpty {
			empty, open, target := emptiness(fv)
			if empty && !open {
				continue
			}
			optional = empty && open
			if _, custom := CustomFolders[fv.Type()]; !custom {
				fv = target // (a folder registered for the field's own type gets the field's value, not what it holds)
			}
		}
		out.Keys = append(out.Keys, name)
		out.Elems = append(out.Elems, refFold(fv, amb, depth+1))
		if optional {
			*amb++
			for len(out.Opt) < len(out.Keys)-1 {
				out.Opt = append(out.Opt, false)
			}
			out.Opt = append(out.Opt, true)
		}
	}
}

// emptiness decides whether an omitempty field is empty. open: the statement does not say
// (emptiness by size or IsZero found behind a non-nil pointer/interface). target is the value
// that is folded when the member is reported.
func emptiness(v reflect.Value) (empty, open bool, target reflect.Value) {
	behind := false
	for {
		switch v.Kind() {
		case reflect.Ptr, reflect.Interface:
			if v.IsNil() {
				// nil pointer or interface: empty (if reached through another pointer the statement is silent)
				return true, behind, v
			}
			if isZeroMethod(v.Type()) && v.Kind() == reflect.Ptr {
				z := v.MethodByName("IsZero").Call(nil)[0].Bool()
				if z {
					return true, behind, v
				}
			}
			v = v.Elem()
			behind = true
			continue
		}
		break
	}
	switch v.Kind() {
	case reflect.String, reflect.Slice, reflect.Array, reflect.Map:
		if v.Len() == 0 {
			return true, behind, v
		}
		if !isZeroMethod(v.Type()) && !isZeroMethod(reflect.PtrTo(v.Type())) {
			return false, behind, v
		}
		// a custom type of one of these kinds with an IsZero method: empty by size OR by IsZero (both are in the documented list)
	}
	if isZeroMethod(v.Type()) {
		return v.MethodByName("IsZero").Call(nil)[0].Bool(), behind, v
	}
	if isZeroMethod(reflect.PtrTo(v.Type())) {
		p := reflect.New(v.Type())
		p.Elem().Set(v)
		return p.MethodByName("IsZero").Call(nil)[0].Bool(), behind, v
	}
	return false, false, v
}

func inlineMembers(fv reflect.Value, out *Value, amb *int, depth int) {
	// whether a field can be inlined is a property of its type, not of its value
	bt := fv.Type()
	for bt.Kind() == reflect.Ptr {
		bt = bt.Elem()
	}
	_, custom := CustomFolders[bt]
	_, f1 := folderMethod(bt)
	_, f2 := folderMethod(reflect.PtrTo(bt))
	if !custom && !f1 && !f2 {
		switch bt.Kind() {
		case reflect.Struct, reflect.Interface:
		case reflect.Map:
			if bt.Key().Kind() != reflect.String {
				panic(refuse{"inline map key is not a string"})
			}
		default:
			panic(refuse{"inline needs a struct, map or interface"})
		}
	}
	for fv.Kind() == reflect.Ptr {
		if fv.IsNil() {
			return // nothing to inline
		}
		fv = fv.Elem()
	}
	switch fv.Kind() {
	case reflect.Map, reflect.Slice, reflect.Interface:
		if fv.IsNil() {
			return // a missing value has no members, whatever would have folded it
		}
	}
	if val, ok := viaCustom(fv); ok {
		if val.K != VObj {
			panic(refuse{"inline registered folder did not emit an object"})
		}
		appendMembers(out, val)
		return
	}
	if val, ok := viaFolder(fv); ok {
		if val.K != VObj {
			panic(refuse{"inline custom folder did not emit an object"})
		}
		appendMembers(out, val)
		return
	}
	switch fv.Kind() {
	case reflect.Struct:
		structMembers(fv, out, amb, depth+1)
	case reflect.Map:
		if fv.Type().Key().Kind() != reflect.String {
			panic(refuse{"inline map key is not a string"})
		}
		if fv.Len() > 1 || (fv.Len() == 1 && len(out.Keys) > 0 && false) {
			out.Unordered = true
		}
		for _, k := range fv.MapKeys() {
			out.Keys = append(out.Keys, k.String())
			out.Elems = append(out.Elems, refFold(fv.MapIndex(k), amb, depth+1))
		}
	case reflect.Interface:
		if fv.IsNil() {
			return
		}
		val := refFold(fv.Elem(), amb, depth+1)
		if val.K != VObj {
			panic(refuse{"inline interface does not hold an object"})
		}
		appendMembers(out, val)
	default:
		panic(refuse{"inline needs a struct, map or interface"})
	}
}

func appendMembers(out *Value, val Value) {
	if val.Unordered && len(val.Keys) > 1 {
		out.Unordered = true
	}
	for i, k := range val.Keys {
		out.Keys = append(out.Keys, k)
		out.Elems = append(out.Elems, val.Elems[i])
		if i < len(val.Opt) && val.Opt[i] {
			for len(out.Opt) < len(out.Keys)-1 {
				out.Opt = append(out.Opt, false)
			}
			out.Opt = append(out.Opt, true)
		}
	}
}
