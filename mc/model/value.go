package model

import (
	"fmt"
	"math"
	"sort"
	"strconv"
	"strings"
	"unicode/utf8"

	structform "github.com/elastic/go-structform"
)

// VKind is the kind of a model value.
type VKind uint8

const (
	VNull VKind = iota
	VBool
	VInt
	VF32
	VF64
	VStr
	VArr
	VObj
)

// Value is the reference value model: what an event stream *means*.
type Value struct {
	K         VKind
	B         bool
	Neg       bool   // VInt: value is -(Mag) (Mag != 0)
	Mag       uint64 // VInt magnitude; for Neg the value -2^64 cannot occur in events
	Big       bool   // VInt: magnitude is 2^64 (only produced by reference decoders: -2^64)
	Bits      uint64 // VF32 / VF64 bit pattern
	S         string
	Elems     []Value
	Keys      []string
	Unordered bool   // VObj derived from a Go map: member order is not significant
	Opt       []bool // VObj (reference side only): member i may be present or absent
	Len       int    // announced length
	BT        structform.BaseType

	outOfRange bool // reference JSON decoder: literal may be rejected/widened by the library
}

func IntV(i int64) Value {
	if i < 0 {
		return Value{K: VInt, Neg: true, Mag: uint64(-(i + 1)) + 1}
	}
	return Value{K: VInt, Mag: uint64(i)}
}
func UintV(u uint64) Value { return Value{K: VInt, Mag: u} }
func NegV(mag uint64) Value {
	if mag == 0 {
		return Value{K: VInt}
	}
	return Value{K: VInt, Neg: true, Mag: mag}
}
func StrV(s string) Value    { return Value{K: VStr, S: s} }
func BoolV(b bool) Value     { return Value{K: VBool, B: b} }
func NullV() Value           { return Value{K: VNull} }
func F32V(bits uint32) Value { return Value{K: VF32, Bits: uint64(bits)} }
func F64V(bits uint64) Value { return Value{K: VF64, Bits: bits} }
func ArrV(el ...Value) Value { return Value{K: VArr, Elems: el, Len: -1} }
func ObjV(keys []string, el []Value) Value {
	return Value{K: VObj, Keys: keys, Elems: el, Len: -1}
}

func (v Value) String() string {
	var sb strings.Builder
	v.write(&sb)
	return sb.String()
}

func (v Value) write(sb *strings.Builder) {
	if sb.Len() > 2000 {
		return
	}
	switch v.K {
	case VNull:
		sb.WriteString("null")
	case VBool:
		fmt.Fprintf(sb, "%v", v.B)
	case VInt:
		if v.Neg {
			sb.WriteByte('-')
		}
		if v.Big {
			sb.WriteString("18446744073709551616")
		} else {
			sb.WriteString(strconv.FormatUint(v.Mag, 10))
		}
	case VF32:
		fmt.Fprintf(sb, "f32(%v|%#x)", math.Float32frombits(uint32(v.Bits)), v.Bits)
	case VF64:
		fmt.Fprintf(sb, "f64(%v|%#x)", math.Float64frombits(v.Bits), v.Bits)
	case VStr:
		sb.WriteString(strconv.QuoteToASCII(v.S))
	case VArr:
		sb.WriteByte('[')
		for i, e := range v.Elems {
			if i > 0 {
				sb.WriteByte(',')
			}
			e.write(sb)
		}
		sb.WriteByte(']')
	case VObj:
		sb.WriteByte('{')
		for i, e := range v.Elems {
			if i > 0 {
				sb.WriteByte(',')
			}
			sb.WriteString(strconv.QuoteToASCII(v.Keys[i]))
			sb.WriteByte(':')
			e.write(sb)
		}
		sb.WriteByte('}')
	}
}

// ValuesOf builds the values of a (possibly multi-document) event stream.
// Extended events are expanded. An ill-formed stream yields an error.
func ValuesOf(evs []Event) ([]Value, error) {
	evs = Expand(evs)
	type frame struct {
		v       Value
		haveKey bool
		key     string
	}
	var stack []frame
	var out []Value
	emit := func(v Value) error {
		if len(stack) == 0 {
			out = append(out, v)
			return nil
		}
		top := &stack[len(stack)-1]
		if top.v.K == VObj {
			if !top.haveKey {
				return fmt.Errorf("value without key in object")
			}
			top.v.Keys = append(top.v.Keys, top.key)
			top.haveKey = false
		}
		top.v.Elems = append(top.v.Elems, v)
		return nil
	}
	for i, e := range evs {
		var err error
		switch e.K {
		case KObjStart:
			stack = append(stack, frame{v: Value{K: VObj, Len: e.Len, BT: e.BT, Unordered: e.B}})
		case KArrStart:
			stack = append(stack, frame{v: Value{K: VArr, Len: e.Len, BT: e.BT}})
		case KObjEnd, KArrEnd:
			if len(stack) == 0 {
				return out, fmt.Errorf("event %d: finish without start", i)
			}
			top := stack[len(stack)-1]
			want := VObj
			if e.K == KArrEnd {
				want = VArr
			}
			if top.v.K != want {
				return out, fmt.Errorf("event %d: mismatching finish", i)
			}
			if top.haveKey {
				return out, fmt.Errorf("event %d: object finished after key", i)
			}
			stack = stack[:len(stack)-1]
			err = emit(top.v)
		case KKey:
			if len(stack) == 0 || stack[len(stack)-1].v.K != VObj {
				return out, fmt.Errorf("event %d: key outside object", i)
			}
			top := &stack[len(stack)-1]
			if top.haveKey {
				return out, fmt.Errorf("event %d: two keys in a row", i)
			}
			top.haveKey, top.key = true, e.S
		case KNil:
			err = emit(NullV())
		case KBool:
			err = emit(BoolV(e.B))
		case KString:
			err = emit(StrV(e.S))
		case KFloat32:
			err = emit(F32V(uint32(e.U)))
		case KFloat64:
			err = emit(F64V(e.U))
		default:
			if e.K.IsSigned() {
				err = emit(IntV(e.I))
			} else if e.K.IsInt() {
				err = emit(UintV(e.U))
			} else {
				return out, fmt.Errorf("event %d: unexpected kind %v", i, e.K)
			}
		}
		if err != nil {
			return out, fmt.Errorf("event %d: %v", i, err)
		}
	}
	if len(stack) != 0 {
		return out, fmt.Errorf("stream ends with %d open containers", len(stack))
	}
	return out, nil
}

// ValueOf builds the single value of a one-document stream.
func ValueOf(evs []Event) (Value, error) {
	vs, err := ValuesOf(evs)
	if err != nil {
		return Value{}, err
	}
	if len(vs) != 1 {
		return Value{}, fmt.Errorf("stream holds %d top-level values", len(vs))
	}
	return vs[0], nil
}

// Mode selects the representation changes a comparison tolerates.
type Mode int

const (
	Exact  Mode = iota // integers numerically, floats bit-exact per width, strings byte-wise
	UBJSON             // + integers above MaxInt64 ≡ their decimal string
	JSON               // numbers compared numerically (see jsonNum); invalid UTF-8 replaced
)

// Equal compares want (the reference / input value) with got (what the implementation produced).
func Equal(want, got Value, m Mode) bool {
	if m == JSON {
		wn, wok := jsonNum(want)
		gn, gok := jsonNum(got)
		if wok || gok {
			return wok && gok && wn == gn
		}
	}
	if m == UBJSON {
		if want.K == VInt && !want.Neg && want.Mag > math.MaxInt64 {
			want = StrV(strconv.FormatUint(want.Mag, 10))
		}
	}
	if want.K != got.K {
		return false
	}
	switch want.K {
	case VNull:
		return true
	case VBool:
		return want.B == got.B
	case VInt:
		return want.Neg == got.Neg && want.Mag == got.Mag && want.Big == got.Big
	case VF32, VF64:
		return want.Bits == got.Bits
	case VStr:
		if m == JSON {
			return ToValidUTF8(want.S) == got.S
		}
		return want.S == got.S
	case VArr:
		if len(want.Elems) != len(got.Elems) {
			return false
		}
		for i := range want.Elems {
			if !Equal(want.Elems[i], got.Elems[i], m) {
				return false
			}
		}
		return true
	case VObj:
		if len(want.Elems) != len(got.Elems) && len(want.Opt) == 0 {
			return false
		}
		wi, gi := identity(len(want.Elems)), identity(len(got.Elems))
		if want.Unordered || got.Unordered {
			wk, gk := want.Keys, got.Keys
			if m == JSON {
				wk = validKeys(wk)
			}
			sort.SliceStable(wi, func(a, b int) bool { return wk[wi[a]] < wk[wi[b]] })
			sort.SliceStable(gi, func(a, b int) bool { return gk[gi[a]] < gk[gi[b]] })
		}
		var match func(i, j int) bool
		match = func(i, j int) bool {
			if i == len(wi) {
				return j == len(gi)
			}
			wk := want.Keys[wi[i]]
			if m == JSON {
				wk = ToValidUTF8(wk)
			}
			if j < len(gi) && wk == got.Keys[gi[j]] && Equal(want.Elems[wi[i]], got.Elems[gi[j]], m) && match(i+1, j+1) {
				return true
			}
			if wi[i] < len(want.Opt) && want.Opt[wi[i]] {
				return match(i+1, j) // optional member absent
			}
			return false
		}
		return match(0, 0)
	}
	return false
}

func f32frombits(b uint32) float32 { return math.Float32frombits(b) }
func f64frombits(b uint64) float64 { return math.Float64frombits(b) }
func f32bits(f float32) uint32     { return math.Float32bits(f) }
func f64bits(f float64) uint64     { return math.Float64bits(f) }

func validKeys(ks []string) []string {
	out := make([]string, len(ks))
	for i, k := range ks {
		out[i] = ToValidUTF8(k)
	}
	return out
}

func identity(n int) []int {
	idx := make([]int, n)
	for i := range idx {
		idx[i] = i
	}
	return idx
}

// ToValidUTF8 replaces every invalid byte by U+FFFD (one replacement per byte, as encoding/json does).
func ToValidUTF8(s string) string {
	ok := true
	for i := 0; i < len(s); {
		if s[i] < 0x80 {
			i++
			continue
		}
		r, sz := decodeRune(s[i:])
		if r == 0xFFFD && sz == 1 {
			ok = false
			break
		}
		i += sz
	}
	if ok {
		return s
	}
	var sb strings.Builder
	for i := 0; i < len(s); {
		if s[i] < 0x80 {
			sb.WriteByte(s[i])
			i++
			continue
		}
		r, sz := decodeRune(s[i:])
		if r == 0xFFFD && sz == 1 {
			sb.WriteString("\xef\xbf\xbd")
			i++
			continue
		}
		sb.WriteString(s[i : i+sz])
		i += sz
	}
	return sb.String()
}

// jnum is the canonical form of a JSON number: an exact integer in (-2^64, 2^64) or a float64.
type jnum struct {
	isInt bool
	neg   bool
	mag   uint64
	bits  uint64
}

// jsonNum maps numeric values to the number they denote in a JSON text and back:
// float32 goes through its shortest round-tripping decimal (read back as float64);
// integral floats inside the 64-bit integer range are identified with that integer;
// -0 is identified with 0.
func jsonNum(v Value) (jnum, bool) {
	switch v.K {
	case VInt:
		if v.Big {
			return jnum{bits: math.Float64bits(-18446744073709551616.0)}, true
		}
		if v.Mag == 0 {
			return jnum{isInt: true}, true
		}
		return jnum{isInt: true, neg: v.Neg, mag: v.Mag}, true
	case VF32:
		f32 := math.Float32frombits(uint32(v.Bits))
		if f32 != f32 || math.IsInf(float64(f32), 0) {
			return jnum{bits: v.Bits | 1<<63 | 1<<62}, true // non-finite: never equal to a JSON number
		}
		s := strconv.FormatFloat(float64(f32), 'g', -1, 32)
		f, _ := strconv.ParseFloat(s, 64)
		return floatNum(f), true
	case VF64:
		return floatNum(math.Float64frombits(v.Bits)), true
	}
	return jnum{}, false
}

func floatNum(f float64) jnum {
	if f == 0 {
		return jnum{isInt: true}
	}
	if f == math.Trunc(f) && math.Abs(f) < 18446744073709551616.0 {
		if f < 0 {
			return jnum{isInt: true, neg: true, mag: uint64(-f)}
		}
		return jnum{isInt: true, mag: uint64(f)}
	}
	return jnum{bits: math.Float64bits(f)}
}

// HasNonFinite reports whether the value contains a NaN or an infinity.
func HasNonFinite(v Value) bool {
	switch v.K {
	case VF32:
		f := math.Float32frombits(uint32(v.Bits))
		return f != f || math.IsInf(float64(f), 0)
	case VF64:
		f := math.Float64frombits(v.Bits)
		return f != f || math.IsInf(f, 0)
	case VArr, VObj:
		for _, e := range v.Elems {
			if HasNonFinite(e) {
				return true
			}
		}
	}
	return false
}

// NullNonFinite replaces non-finite floats by null (JSON ignoreInvalidFloat).
func NullNonFinite(v Value) Value {
	switch v.K {
	case VF32, VF64:
		if HasNonFinite(v) {
			return NullV()
		}
	case VArr, VObj:
		c := v
		c.Elems = make([]Value, len(v.Elems))
		for i, e := range v.Elems {
			c.Elems[i] = NullNonFinite(e)
		}
		return c
	}
	return v
}

func decodeRune(s string) (rune, int) { return utf8.DecodeRuneInString(s) }

// Events renders the value as an event stream (integers as int64 / uint64 events, containers with
// their known length when Len >= 0, optional members included).
func (v Value) Events(out []Event) []Event {
	switch v.K {
	case VNull:
		return append(out, Nil())
	case VBool:
		return append(out, Bool(v.B))
	case VStr:
		return append(out, Str(v.S))
	case VInt:
		if v.Neg {
			return append(out, SInt(KInt64, -int64(v.Mag-1)-1))
		}
		if v.Mag > 1<<63-1 {
			return append(out, UInt(KUint64, v.Mag))
		}
		return append(out, SInt(KInt64, int64(v.Mag)))
	case VF32:
		return append(out, F32(uint32(v.Bits)))
	case VF64:
		return append(out, F64(v.Bits))
	case VArr:
		out = append(out, ArrStart(len(v.Elems), 0))
		for _, e := range v.Elems {
			out = e.Events(out)
		}
		return append(out, ArrEnd())
	case VObj:
		out = append(out, ObjStart(len(v.Elems), 0))
		for i, e := range v.Elems {
			out = append(out, Key(v.Keys[i]))
			out = e.Events(out)
		}
		return append(out, ObjEnd())
	}
	panic("Value.Events: unknown kind")
}
