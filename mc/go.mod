module verif/mc

go 1.21

require github.com/elastic/go-structform v0.0.0

replace github.com/elastic/go-structform => /repo
