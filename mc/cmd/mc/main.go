// Command mc is the model-checking driver and worker for the go-structform properties.
//
//	mc check <ID> <quick|thorough>   run a check (driver; forks workers of itself)
//	mc worker <ID> <tier>            worker loop (internal)
//	mc replay <file>                 re-execute the violating execution stored in a replay file
//	mc list                          list checks
package main

import (
	"fmt"
	"os"

	"verif/mc/engine"
	"verif/mc/props"
)

func main() {
	props.Init()
	if len(os.Args) < 2 {
		fmt.Fprintln(os.Stderr, "usage: mc check|worker|replay|list ...")
		os.Exit(2)
	}
	switch os.Args[1] {
	case "check":
		if len(os.Args) != 4 {
			fmt.Fprintln(os.Stderr, "usage: mc check <ID> <tier>")
			os.Exit(2)
		}
		os.Exit(engine.DriverMain(os.Args[2], os.Args[3]))
	case "worker":
		engine.WorkerMain(os.Args[2], os.Args[3])
	case "replay":
		os.Exit(engine.ReplayMain(os.Args[2]))
	case "racepass":
		os.Exit(props.RacePass())
	case "list":
		for _, id := range engine.IDs() {
			fmt.Println(id)
		}
	default:
		fmt.Fprintln(os.Stderr, "unknown command", os.Args[1])
		os.Exit(2)
	}
}
